"""C21 plan_mutator inserts head/tail messages exactly as documented."""

from __future__ import annotations

import weakref

from .. import gendrv as G
from ..core import Result, use_repo

use_repo()

ID = "C21"
DESIGN_REF = "DESIGN.md §8 C21, §2.2"
TECHNIQUE = (
    "generated host programs x processors inserting generated head/tail programs at chosen host messages, driven by "
    "send/throw/close scripts built against an independent reference relay; differential oracle on driver trace, "
    "per-program logs and the processor's call log"
)
LEVEL_TEXT = (
    "Differential check of plan_mutator against a hand-written reference relay that implements the documented "
    "contract: the host gets the response to head's last message, tail runs right after head and its responses / "
    "return value are discarded, a message object the processor has already been given passes through "
    "unprocessed, exceptions raised in (or thrown into and not handled by) head/tail are thrown into the host at "
    "the original yield. Compared: driver trace (message identity, return value, raised exception), what host, "
    "head and tail programs each saw, and which messages the processor was called with."
)
LEVEL_NOTE = (
    "Exploration. Unspecified situations are excluded from the strict comparison and only required to terminate "
    "without an internal error: a head/tail that swallows a thrown exception by returning, an empty head, and "
    "close()/PlanHalt when some active program yields or raises while being closed. The clause 'inserted messages "
    "are not themselves re-processed' is checked in two parts: a message object is never given to the processor "
    "twice (hard), and the processor is never given a message created by a head/tail (finding F12)."
)
RULE = (
    "case = (host program, {host pool message -> (head program | None, tail program | None)}, script). Heads are "
    "'fresh messages then the original', 'replacement' or arbitrary grammar programs that may re-yield the original; "
    "tails likewise; they may raise and may handle thrown exceptions. The script is drawn while stepping the "
    "reference, so throws/closes are aimed at yields inside head/tail programs and inside try clauses. Non-trivial: "
    "the processor returned a head or tail for a host message that was reached and at least one inserted "
    "generator was started. Distinct = distinct canonical JSON of the case."
)
ASSUMPTIONS = [
    "the processor returns (None, None) for every message that is not one of the chosen host messages (the robust "
    "pattern all in-repo processors follow), so trace equality is independent of finding F12",
    "mode 'hold': head/tail generator objects are kept alive by the harness for the whole case, so id() values are "
    "never recycled; mode 'reuse': they are released as soon as plan_mutator drops them and the processor allocates "
    "candidates until a new generator lands on the address of a dead one (what CPython's allocator does by itself "
    "whenever sizes match) -- this exposes finding FC21a deterministically",
    "KeyboardInterrupt/SystemExit are never thrown; programs never yield None",
]
ENGINE = "E2"

#: Reading (b) of "inserted messages are not themselves re-processed": the processor must not be given
#: messages created by head/tail generators.  The code does give them to it (finding F12, a behaviour
#: decision).  Set to False to demote that part to a class label only.
ASSERT_PROCESSOR_NOT_GIVEN_INSERTED_MESSAGES = True


# ------------------------------------------------------------------------------------------
# processor shared by the reference and the code under test


class Proc:
    """Processor keyed by host message *object*; returns fresh head/tail generator instances.

    ``mode``: "hold" keeps every generator it made alive for the whole case (ids never recycled);
    "reuse" keeps none and, like an adversarial allocator, tries to give a new generator the
    address of a dead one it returned earlier (CPython recycles addresses of freed objects; the
    processor only makes that likely event certain by allocating a few candidates)."""

    def __init__(self, env, inserts, mode="hold"):
        self.env = env
        self.inserts = inserts
        self.calls = []
        self.n = 0
        self.keep = []
        self.mode = mode
        self.returned = []
        self.made = {}  # id -> weakref of generators returned so far
        self.id_reused = False

    def _make(self, prog, name, orig):
        env = self.env
        g = env.instantiate(prog, name, orig=orig)
        if self.mode == "hold":
            self.keep.append(g)
            return g
        if self.mode == "reuse":
            dead = {i for i, r in self.made.items() if r() is None}
            if dead and id(g) not in dead:
                cands = [g]
                for _ in range(48):
                    c = env.instantiate(prog, name, orig=orig)
                    if id(c) in dead:
                        g = c
                        break
                    cands.append(c)
                del cands
            if id(g) in dead:
                self.id_reused = True
        self.made[id(g)] = weakref.ref(g)
        return g

    def __call__(self, msg):
        env = self.env
        self.calls.append(env.mid(msg))
        pool = env.ctxs["host"].pool
        for k, ins in self.inserts.items():
            if pool[int(k)] is msg:
                j = self.n
                self.n += 1
                # the tail is made first: for (None, tail) plan_mutator itself allocates the head afterwards
                tail = self._make(ins["tail"], f"t{j}", msg) if ins.get("tail") else None
                head = self._make(ins["head"], f"h{j}", msg) if ins.get("head") else None
                self.returned.append(("H" if head is not None else "-") + ("T" if tail is not None else "-"))
                return head, tail
        return None, None


# ------------------------------------------------------------------------------------------
# reference relay (plain Python; documented semantics only)


def _relay(gen, flags, kind):
    """Run an inserted generator to exhaustion, relaying messages / responses / exceptions;
    returns the response to its last message."""
    last = None
    try:
        m = gen.send(None)
    except StopIteration:
        flags.add("empty_" + kind)
        return None
    except Exception:
        flags.add(f"fact:{kind}_raised")
        raise
    while True:
        try:
            r = yield m
        except GeneratorExit:
            gen.close()
            raise
        except Exception as e:  # noqa: BLE001
            try:
                m = gen.throw(e)
            except StopIteration:
                flags.add("swallow_return")  # unspecified what the host gets now
                return last
            except Exception:
                flags.add(f"fact:{kind}_died_by_throw")
                raise
        else:
            last = r
            try:
                m = gen.send(r)
            except StopIteration:
                return last
            except Exception:
                flags.add(f"fact:{kind}_raised")
                raise


def reference(host, proc, flags):
    seen = {}
    try:
        msg = host.send(None)
    except StopIteration as s:
        return s.value
    while True:
        try:
            if id(msg) in seen:
                resp = yield msg
            else:
                seen[id(msg)] = msg
                head, tail = proc(msg)
                if head is None:
                    try:
                        resp = yield msg
                    except Exception:
                        if tail is not None:
                            # plan_mutator substitutes single_gen(msg) for the missing head: an inserted generator too
                            flags.add("fact:head_died_by_throw")
                        raise
                else:
                    resp = yield from _relay(head, flags, "head")
                if tail is not None:
                    yield from _relay(tail, flags, "tail")
        except GeneratorExit:
            host.close()
            raise
        except Exception as e:  # noqa: BLE001
            try:
                msg = host.throw(e)
            except StopIteration as s:
                return s.value
        else:
            try:
                msg = host.send(resp)
            except StopIteration as s:
                return s.value


# ------------------------------------------------------------------------------------------


def _run(case, which):
    env = G.Env()
    host = env.instantiate(case["host"], "host")
    proc = Proc(env, case["inserts"], mode="hold" if which == "ref" else case.get("mode", "hold"))
    flags = set()
    if which == "ref":
        gen = reference(host, proc, flags)
    else:
        from bluesky.preprocessors import plan_mutator

        gen = plan_mutator(host, proc)
    d = G.Driver(gen, env, cap=250)
    d.host = host
    d.run(case["script"])
    return env, d, proc, flags


def _ctx_kind(name):
    return {"h": "head", "t": "tail"}.get(name[0], "host") if name != "host" else "host"


def check_case(case) -> Result:
    res = Result()
    env0, d0, proc0, flags = _run(case, "ref")
    if any(o == ["runaway"] for _, o in d0.trace):
        raise RuntimeError("reference hit the runaway cap")
    ref = G.observation(env0, d0)
    used = case["script"][: len(d0.where)]
    labs = []
    messy_close = False
    for (a, out), w in zip(d0.trace, d0.where):
        if a[0] == "send":
            continue
        kind = a[0]
        if kind == "throw":
            kind = "halt" if G.is_genexit_name(a[1]) else ("ctl" if a[1] in G.THROWABLE_CONTROL else "throw")
        where = "unstarted" if w is None else f"{_ctx_kind(w[0])}:{G.pos_label(w)}"
        labs.append(f"{kind}@{where}")
        if kind == "close" and out != ["closed"]:
            messy_close = True
        if kind == "halt" and out != ["raise", ["GeneratorExit*"]]:
            messy_close = True
    if G.misbehaved_on_genexit(d0.logs):
        messy_close = True
    started = [n for n, c in env0.ctxs.items() if n != "host" and c.starts]
    res.nontrivial = bool(started)
    res.classes = sorted(set(labs)) + sorted({"insert:" + r for r in proc0.returned})
    for n in started:
        log = d0.logs[n]
        if any(e[0] == "exc_at" and e[2] != ["GeneratorExit*"] for e in log):
            res.classes.append(f"exception_arrived_in_{_ctx_kind(n)}")
    res.classes = sorted(set(res.classes))
    facts = sorted(f[5:] for f in flags if f.startswith("fact:"))
    flags = {f for f in flags if not f.startswith("fact:")}
    res.classes += ["inserted_gen_" + f.split("_", 1)[1] + ":" + f.split("_", 1)[0] for f in facts]
    weak = sorted(flags) + (["messy_close"] if messy_close else [])
    res.klass = "unspecified:" + "+".join(weak) if weak else ("inserted" if res.nontrivial else "no_insertion_reached")
    feats = {
        "events": sorted(set(labs)),
        "inserted": sorted(set(proc0.returned)),
        "mode": case.get("mode", "hold"),
        # precondition of finding FC21a, decided on the reference run: some inserted generator was ended by an exception
        "inserted_gen_died_by_exception": bool(facts),
    }

    env, d, proc, _ = _run(case, "code")
    feats["generator_id_recycled"] = proc.id_reused
    if proc.id_reused:
        res.classes.append("generator_id_recycled")
    if any(o == ["runaway"] for _, o in d.trace):
        return res.fail("runaway", f"plan_mutator still yielding after {d.cap} steps; reference finished in {len(d0.trace)}", **feats)
    last_out = d.trace[-1][1]
    if last_out[0] == "raise" and not d.final_exc_known and not weak:
        res.fail("internal_error", f"plan_mutator raised an exception nobody threw or raised: {last_out}", **feats)
    if last_out[0] == "raise" and weak and not d.final_exc_known:
        if not (last_out[1][1] == "RuntimeError" and "GeneratorExit" in str(last_out[1][2])):
            res.fail("internal_error", f"plan_mutator raised an exception nobody threw or raised: {last_out}", **feats)

    # (a) a message object is given to the processor at most once -- holds in every class
    seen = []
    for mid in proc.calls:
        if mid in seen:
            res.fail("proc_called_twice_on_same_msg", f"processor called again with message {mid}; calls={proc.calls}", **feats)
            break
        seen.append(mid)
    # (b) messages created by head/tail are given to the processor: finding F12
    fresh_inserted = [mid for mid in proc.calls if mid[0] != "host"]
    if fresh_inserted:
        res.classes.append("processor_given_inserted_message")
    if fresh_inserted and ASSERT_PROCESSOR_NOT_GIVEN_INSERTED_MESSAGES:
        res.fail(
            "proc_called_on_inserted_msg",
            f"processor was called with {len(fresh_inserted)} message(s) created by inserted head/tail programs, first {fresh_inserted[0]}",
            inserted_program_yields_fresh_msg=True,
        )
    if weak:
        return res
    got = G.observation(env, d)
    if got != ref:
        res.fail("differs_from_reference", f"{G.first_diff(ref, got)} (left=reference, right=plan_mutator)", **feats)
    host_calls_ref = [m for m in proc0.calls if m[0] == "host"]
    host_calls = [m for m in proc.calls if m[0] == "host"]
    if host_calls != host_calls_ref:
        res.fail("proc_calls_differ", f"processor calls on host messages: expected {host_calls_ref}, got {host_calls}", **feats)
    return res


# ------------------------------------------------------------------------------------------


def _strategy():
    from hypothesis import strategies as st

    def inserted_prog(draw, kind):
        shape = draw(st.sampled_from(["before", "replace", "general", "general"] if kind == "head" else ["fresh", "general", "general"]))
        own = [{"cmd": "i", "obj": None, "args": [f"{kind}{i}"]} for i in range(2)]
        if shape == "before":
            n = draw(st.integers(1, 2))
            body = {"op": "seq", "body": [{"op": "y", "m": 1 + (i % 2)} for i in range(n)] + [{"op": "y", "m": 0}]}
            return {"pool": [{"orig": True}] + own, "body": body}
        if shape in ("replace", "fresh"):
            return G.draw_program(draw, st, budget=draw(st.sampled_from([1, 2, 4])), pool_specs=own, allow_ret=True)
        return G.draw_program(draw, st, budget=draw(st.sampled_from([2, 4, 6])), pool_specs=[{"orig": True}] + own)

    @st.composite
    def cases(draw):
        npool = draw(st.integers(1, 3))
        pool = [{"cmd": "m", "obj": None, "args": [f"p{i}"]} for i in range(npool)]
        host = G.draw_program(draw, st, budget=draw(st.sampled_from([2, 4, 6, 8])), pool_specs=pool)
        inserts = {}
        usedk = sorted(G.pool_indices_used(host["body"]))
        if not usedk:
            host["body"] = {"op": "seq", "body": [{"op": "y", "m": 0}, host["body"]]}
            usedk = [0]
        for k in usedk:
            if k == usedk[0] or draw(st.booleans()):
                which = draw(st.sampled_from(["H", "T", "HT", "HT"]))
                inserts[str(k)] = {
                    "head": inserted_prog(draw, "head") if "H" in which else None,
                    "tail": inserted_prog(draw, "tail") if "T" in which else None,
                }
        case = {"host": host, "inserts": inserts, "script": [], "mode": draw(st.sampled_from(["hold", "reuse"]))}

        def make(env):
            h = env.instantiate(host, "host")
            return reference(h, Proc(env, inserts), set())

        case["script"] = G.draw_script(draw, st, make, max_len=12)
        return case

    return cases()


def _directed_cases(two_throws):
    """Directed family: a host that survives errors at three processed messages, every combination of
    insertion shapes at them, one (or two) device errors thrown at every step, both harness modes."""
    import itertools

    pool = [{"cmd": "m", "obj": None, "args": [f"p{i}"]} for i in range(3)]
    ipool = [{"orig": True}, {"cmd": "i", "obj": None, "args": ["a"]}, {"cmd": "i", "obj": None, "args": ["b"]}]

    def guarded(k):
        return {"op": "try", "body": {"op": "y", "m": k}, "handlers": [{"exc": ["Exception"], "body": {"op": "nop"}, "reraise": False}], "else": None, "finally": None}

    host = {"pool": pool, "body": {"op": "seq", "body": [guarded(0), guarded(1), {"op": "y", "m": 2}]}}
    before = {"pool": ipool, "body": {"op": "seq", "body": [{"op": "y", "m": 1}, {"op": "y", "m": 0}]}}
    repl = {"pool": ipool, "body": {"op": "y", "m": 1}}
    tail = {"pool": ipool, "body": {"op": "y", "m": 2}}
    shapes = {"-": None, "H": (before, None), "R": (repl, None), "T": (None, tail), "HT": (before, tail), "RT": (repl, tail)}
    out = []
    for combo in itertools.product(shapes, repeat=3):
        inserts = {}
        for k, sh in enumerate(combo):
            if shapes[sh] is not None:
                inserts[str(k)] = {"head": shapes[sh][0], "tail": shapes[sh][1]}
        if not inserts:
            continue
        base = {"host": host, "inserts": inserts}
        env = G.Env()
        d = G.Driver(reference(env.instantiate(host, "host"), Proc(env, inserts), set()), env)
        d.run([])
        n = len(d.trace)
        positions = [(k,) for k in range(1, n)]
        if two_throws:
            positions += [(a, b) for a in range(1, n) for b in range(a + 1, n + 1)]
        for pos in positions:
            script = [["send", None]] + [["send", i] for i in range(1, n + 2)]
            for k in pos:
                if k < len(script):
                    script[k] = ["throw", "ValueError", f"device error {k}", False]
            for mode in ("hold", "reuse"):
                out.append(dict(base, script=script, mode=mode))
    return out


def run(ctx):
    cases = _directed_cases(two_throws=not ctx.quick)
    ctx.extra["directed_cases"] = len(cases)
    ctx.sweep(cases, check_case)
    ctx.hyp(_strategy, check_case, max_examples=ctx.pick(5000, 150000))


def replay(case):
    return check_case(case)
