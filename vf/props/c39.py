"""C39 A LiveDispatcher's re-emitted stream is a valid run."""

from __future__ import annotations

import copy

from ..core import Result, use_repo

use_repo()

ID = "C39"
DESIGN_REF = "DESIGN.md §8 C39"
TECHNIQUE = "Hypothesis-generated runs through generated LiveDispatcher subclasses, run-validity oracle on the re-emitted documents"
LEVEL_TEXT = (
    "Generated multi-stream runs are fed to the pass-through LiveDispatcher and to parametrised transforming "
    "subclasses (renaming, decimating, splitting, routing to stream names, id_args); the re-emitted documents are "
    "validated against the event-model schemas, checked for referential integrity, per-stream numbering 1..N and "
    "RunStop.num_events."
)
LEVEL_NOTE = (
    "'Stream' is read both as the re-emitted descriptor's name and as the stream_name passed to process_event; a "
    "numbering / num_events failure is reported only when it holds under both readings. Exploration, not proof."
)
RULE = (
    "case = (docs, params): docs is a vf.docgen run with 1-3 interleaved streams, 0-6 events each, optional mid-run "
    "re-description; params picks the dispatcher program: route in {default, by_name, const, map}, rename, decimate n, "
    "reduced event (data+descriptor only), split per key, id_args in {none, const, parity, keynames}, config; one case "
    "in five sends an earlier complete run through the same dispatcher object first. "
    "Non-trivial: >= 2 events re-emitted and (>= 2 re-emitted streams or a stream with more events than descriptors). "
    "Distinct = distinct canonical JSON of the case."
    ' num_events must not report a count for a stream in which the run emitted no event.'
)
ASSUMPTIONS = [
    "the dispatcher receives individual event documents with 'filled' (what the RunEngine publishes), never pages",
    "subclasses only use the documented process_event(doc, stream_name, id_args, config) interface",
    "wall-clock 'time' fields and random uids of re-emitted documents are not compared",
]
ENGINE = "E3"

PASSTHROUGH = {"route": "default", "rename": False, "decimate": 1, "reduced": False, "split": False, "id_args": "none", "config": False}


def _forward(params, ev, raw_name, state):
    """The dispatcher *program*: which (document, process_event kwargs) a raw event turns into."""
    n = params.get("decimate", 1)
    c = state.get(ev["descriptor"], 0) + 1
    state[ev["descriptor"]] = c
    if c % n:
        return []
    data = dict(ev["data"])
    if params.get("rename"):
        data = {f"mod_{k}": v for k, v in data.items()}
    pieces = [data]
    if params.get("split") and len(data) >= 2:
        pieces = [{k: v} for k, v in data.items()]
    out = []
    for piece in pieces:
        if params.get("reduced"):
            fwd = {"data": piece, "descriptor": ev["descriptor"]}
        else:
            fwd = dict(ev)
            fwd["data"] = piece
        kw = {}
        route = params.get("route", "default")
        if route == "by_name":
            kw["stream_name"] = raw_name
        elif route == "const":
            kw["stream_name"] = "processed"
        elif route == "map":
            kw["stream_name"] = "avg" if raw_name == "primary" else "aux"
        ida = params.get("id_args", "none")
        if ida == "const":
            kw["id_args"] = ("cfg", 1)
        elif ida == "parity":
            kw["id_args"] = (ev["seq_num"] % 2,)
        elif ida == "keynames":
            others = tuple(k for k in data if k not in piece)
            if others:
                kw["id_args"] = others
        if params.get("config"):
            kw["config"] = {
                "proc": {
                    "data": {"n": n},
                    "timestamps": {"n": 0.0},
                    "data_keys": {"n": {"dtype": "integer", "shape": [], "source": "program"}},
                }
            }
        out.append((fwd, kw))
    return out


def _numbering_failures(groups, num_events):
    """groups: {stream: [seq_num, ...] in emission order}. Returns {kind: detail}."""
    bad = {}
    for s, seqs in groups.items():
        if seqs != list(range(1, len(seqs) + 1)):
            bad.setdefault("seq_num_not_1_to_N", f"stream {s!r} events are numbered {seqs}")
    for s, seqs in groups.items():
        if not isinstance(num_events, dict) or num_events.get(s) != len(seqs):
            bad.setdefault("num_events_mismatch", f"stream {s!r} has {len(seqs)} re-emitted events, num_events={num_events!r}")
    return bad


def check_case(case) -> Result:
    from bluesky.callbacks.core import CallbackBase
    from bluesky.callbacks.stream import LiveDispatcher

    from .. import docgen

    params = dict(PASSTHROUGH)
    params.update(case.get("params") or {})
    docs = copy.deepcopy(case["docs"])
    passthrough = params == PASSTHROUGH and not case.get("subclass", False)
    res = Result()

    # ---- model of the program (independent of the dispatcher's bookkeeping) -----------------------
    descs = docgen.descriptor_index(case["docs"])
    state = {}
    fwd_model = []  # (stream_name, identity of the descriptor the event needs)
    for name, doc in case["docs"]:
        if name != "event":
            continue
        raw_name = descs[doc["descriptor"]]["name"]
        for fwd, kw in _forward(params, doc, raw_name, state):
            s = kw.get("stream_name", "primary")
            ida = kw.get("id_args") or (doc["descriptor"],)
            fwd_model.append((s, (tuple(fwd["data"].keys()), s, tuple(ida)), raw_name))
    n_events, desc_ids, positions = {}, {}, {}
    for pos, (s, did, _) in enumerate(fwd_model, 1):
        n_events[s] = n_events.get(s, 0) + 1
        desc_ids.setdefault(s, set()).add(did)
        positions.setdefault(s, []).append(pos)
    events_ne_descriptors = any(n_events[s] != len(desc_ids[s]) for s in n_events)
    shared_counter_visible = any(positions[s] != list(range(1, len(positions[s]) + 1)) for s in positions)
    # two different (data keys, stream_name, id_args) identities that coincide as unordered sets
    frozenset_collision = any(
        len({frozenset(d) for d in ids}) < len(ids) for ids in desc_ids.values()
    )
    raw_names = {r for _, _, r in fwd_model}
    res.nontrivial = len(fwd_model) >= 2 and (len(n_events) >= 2 or len(raw_names) >= 2 or events_ne_descriptors)
    res.klass = "passthrough" if passthrough else f"program/route={params['route']}"
    if not passthrough:
        for flag in ("rename", "split", "reduced", "config"):
            if params[flag]:
                res.classes.append(f"program/{flag}")
        if params["decimate"] > 1:
            res.classes.append("program/decimate")
        res.classes.append(f"program/id_args={params['id_args']}")
    if case.get("docs_before"):
        res.classes.append("second_run_through_same_dispatcher")
    res.classes.append(f"raw_streams_with_events={len(raw_names)}")
    res.classes.append(f"reemitted_events={'0' if not fwd_model else '1' if len(fwd_model) == 1 else '2+'}")
    feats = {
        "events_ne_descriptors": events_ne_descriptors,
        "shared_counter_visible": shared_counter_visible,
        "frozenset_collision": frozenset_collision,
        "id_args": params["id_args"],
        "split": bool(params["split"]),
    }

    # ---- run the dispatcher -----------------------------------------------------------------------
    if passthrough:
        ld = LiveDispatcher()
    else:

        class Program(LiveDispatcher):
            def __init__(self):
                super().__init__()
                self._state = {}

            def event(self, doc):
                raw_name = self.raw_descriptors[doc["descriptor"]]["name"]
                for fwd, kw in _forward(params, doc, raw_name, self._state):
                    self.process_event(fwd, **kw)
                return CallbackBase.event(self, doc)

        ld = Program()
    emitted = []
    ld.subscribe(lambda name, doc: emitted.append((name, doc)))
    # an earlier complete run through the same dispatcher object (its re-emission is discarded)
    for name, doc in copy.deepcopy(case.get("docs_before") or []):
        try:
            ld(name, doc)
        except Exception as e:
            return res.fail("dispatcher_raised", f"{type(e).__name__}: {str(e)[:300]} in the earlier run ({name})", **feats)
    if not passthrough:
        ld._state = {}
    del emitted[:]
    for name, doc in docs:
        try:
            ld(name, doc)
        except Exception as e:
            kind = "emitted_schema_invalid" if type(e).__name__ == "ValidationError" else "dispatcher_raised"
            return res.fail(kind, f"{type(e).__name__}: {str(e)[:300]} while processing {name}", **feats)

    # ---- validity of the re-emitted run -------------------------------------------------------------
    names = [n for n, _ in emitted]
    for n, d in emitted:
        msg = docgen.validate_current(n, d)
        if msg:
            return res.fail("emitted_schema_invalid", f"{n}: {msg}", **feats)
    if names.count("start") != 1 or names.count("stop") != 1 or names[0] != "start" or names[-1] != "stop":
        return res.fail("not_bracketed", f"document names: {names}", **feats)
    start, stop = emitted[0][1], emitted[-1][1]
    if stop["run_start"] != start["uid"]:
        res.fail("stop_points_elsewhere", f"stop.run_start={stop['run_start']!r}, start.uid={start['uid']!r}", **feats)
    seen_desc, uids = {}, set()
    ev_docs = []
    for n, d in emitted:
        if n in ("start", "stop", "descriptor", "event"):
            if d["uid"] in uids:
                res.fail("duplicate_uid", f"{n} uid {d['uid']!r} used twice", **feats)
            uids.add(d["uid"])
        if n == "descriptor":
            if d["run_start"] != start["uid"]:
                res.fail("descriptor_points_elsewhere", f"descriptor.run_start={d['run_start']!r}", **feats)
            seen_desc[d["uid"]] = d
        elif n == "event":
            dd = seen_desc.get(d["descriptor"])
            if dd is None:
                res.fail("event_before_descriptor", f"event {d['uid']} references {d['descriptor']!r} not emitted before it", **feats)
                continue
            if set(d["data"]) != set(dd["data_keys"]):
                res.fail(
                    "event_keys_differ_from_descriptor",
                    f"event data keys {sorted(d['data'])} vs descriptor data_keys {sorted(dd['data_keys'])}",
                    **feats,
                )
            if set(d["timestamps"]) != set(d["data"]):
                res.fail("timestamps_keys_differ", f"{sorted(d['timestamps'])} vs {sorted(d['data'])}", **feats)
            ev_docs.append((d, dd))
        elif n not in ("start", "stop"):
            res.fail("unexpected_document", f"re-emitted a {n} document", **feats)
    if len(ev_docs) != len(fwd_model):
        return res.fail("event_count", f"{len(fwd_model)} events handed to process_event, {len(ev_docs)} re-emitted", **feats)
    # data is re-emitted untouched
    k = 0
    state2 = {}
    for name, doc in case["docs"]:
        if name != "event":
            continue
        for fwd, _kw in _forward(params, doc, descs[doc["descriptor"]]["name"], state2):
            if ev_docs[k][0]["data"] != fwd["data"]:
                res.fail("data_altered", f"event #{k}: re-emitted {ev_docs[k][0]['data']!r}, given {fwd['data']!r}", **feats)
            k += 1

    # ---- numbering and num_events under both readings of "stream" -----------------------------------
    by_name, by_arg = {}, {}
    for (d, dd), (s, _did, _raw) in zip(ev_docs, fwd_model):
        by_name.setdefault(dd.get("name"), []).append(d["seq_num"])
        by_arg.setdefault(s, []).append(d["seq_num"])
    fa = _numbering_failures(by_name, stop.get("num_events"))
    fb = _numbering_failures(by_arg, stop.get("num_events"))
    if set(by_name) != set(by_arg) and ev_docs:
        res.classes.append("readings_differ")
    for kind in sorted(set(fa) & set(fb)):
        reach = events_ne_descriptors if kind == "num_events_mismatch" else shared_counter_visible
        res.fail(kind, f"by descriptor name: {fa[kind]}; by stream_name: {fb[kind]}", counter_defect_reachable=reach, **feats)
    # "... reports, for each stream, the number of events emitted in it": a stream in which this run emitted nothing
    # (under either reading of "stream") must not be reported with a count
    ne = stop.get("num_events")
    if isinstance(ne, dict):
        ghosts = {k: v for k, v in ne.items() if v and k not in by_name and k not in by_arg}
        if ghosts:
            res.fail(
                "num_events_for_stream_without_events",
                f"num_events={ne!r} but this run re-emitted events only in {sorted(map(str, set(by_name) | set(by_arg)))}",
                counter_defect_reachable=False,
                **feats,
            )
    res.obs = {"num_events": stop.get("num_events"), "by_name": by_name, "by_stream_name": by_arg}
    return res


def _strategy():
    from hypothesis import strategies as st

    from .. import docgen

    @st.composite
    def cases(draw):
        kind = draw(st.sampled_from(["passthrough", "program", "program", "program"]))
        docs = draw(
            docgen.simple_runs(max_streams=3, max_events=6, start_md=draw(st.booleans()), min_events=draw(st.sampled_from([0, 1, 1])))
        )
        before = None
        if draw(st.integers(0, 4)) == 0:
            before = draw(docgen.simple_runs(max_streams=2, max_events=3, start_md=False))
        if kind == "passthrough":
            case = {"docs": docs, "params": {}}
            if before:
                case["docs_before"] = before
            return case
        params = {
            "route": draw(st.sampled_from(["default", "by_name", "by_name", "const", "map"])),
            "rename": draw(st.booleans()),
            "decimate": draw(st.sampled_from([1, 1, 2, 3])),
            "reduced": draw(st.booleans()),
            "split": draw(st.sampled_from([False, False, True])),
            "id_args": draw(st.sampled_from(["none", "none", "const", "parity", "keynames"])),
            "config": draw(st.booleans()),
        }
        case = {"docs": docs, "params": params, "subclass": True}
        if before:
            case["docs_before"] = before
        return case

    return cases()


def run(ctx):
    # import the code under test (and the generators) once in the parent: forked workers inherit the modules
    import event_model  # noqa: F401
    import hypothesis.strategies  # noqa: F401

    import bluesky.callbacks.stream  # noqa: F401

    from .. import docgen  # noqa: F401

    ctx.hyp(_strategy, check_case, max_examples=ctx.pick(3000, 150000))


def replay(case):
    return check_case(case)
