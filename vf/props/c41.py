"""C41 Monitors report only while their run is open and running."""

from __future__ import annotations

import copy

from ..core import HarnessError, use_repo

use_repo()

from ..engine import e1common, e1oracles  # noqa: E402
from ..engine.oracles import doc_name  # noqa: E402
from ..engine.planlang import M, SEQ  # noqa: E402

ID = "C41"
ENGINE = "E1"
DESIGN_REF = "DESIGN.md §8 C41"
TECHNIQUE = (
    "Hypothesis-generated histories: plans monitoring ophyd-like signals (monitor/unmonitor/close_run/engine-closed "
    "runs, one or two runs) x signal updates at generated loop-callback positions, at virtual-time offsets inside "
    "suspensions, and from the main thread while paused or idle x pause/defer/suspend requests and resumes, on the real "
    "RunEngine; every update is classified from the state history and message trace and compared with the device "
    "ledger (callback invocations per update, subscribe/clear_sub) and the emitted monitor events"
)
LEVEL_TEXT = (
    "For every signal update the engine state, the executed-message prefix and the documents emitted so far decide "
    "whether it must be reported exactly once (run open, monitor in effect, state 'running', no suspension in "
    "progress), must not be reported (paused, waiting in a suspension, before monitor / after unmonitor / after the "
    "run's stop / idle) or may be reported at most once (transitional states). The device ledger gives the number of "
    "engine-callback invocations caused by each update; the monitor stream must carry exactly one event per invocation "
    "with the value of that update, in order, emitted before the run's stop. After unmonitor / the end of the run the "
    "signal must hold no subscription (checked at every later update and at the end of the case), and the engine must "
    "never be subscribed twice to one signal."
)
LEVEL_NOTE = (
    "Signals call a new subscriber once immediately (ophyd run=True; 'run' cannot be passed through a Msg because Msg "
    "reserves that keyword for the run key): those subscription-instant events are identified through the ledger and "
    "allowed (at most one per subscribe call). seq_nums of monitor events are C05's subject and not judged here."
)
RULE = (
    "case = (plan, stages, injections). Plans: [open_run, monitor s1 [s2], body of checkpoints/points/sleeps/moves/"
    "in-plan pauses, optional unmonitor, close_run or left to the engine] x 1-2 runs; 2-7 updates with distinct values "
    "at generated positions (loop thread, timed inside suspensions, main thread between blocking calls); 0-2 "
    "pause/defer/suspend requests; resumes. Non-trivial: a monitor took effect and the case holds at least one update "
    "that must be reported and one that must not (paused / suspended / after unmonitor / after the run). Distinct = "
    "canonical JSON."
    ' Some updates are made from inside a document callback (harness doc_puts), e.g. while the RunStop is being delivered.'
)
ASSUMPTIONS = [
    "requests and updates arrive at boundaries between event-loop callbacks (or on the main thread while the loop is quiescent)",
    "the fake signal mimics ophyd.Signal: subscribe() calls the callback once immediately, put() notifies synchronously, clear_sub(cb) removes every subscription of cb",
    "the engine is the only subscriber of the signals",
]

DEVICES = {
    "dets": {"d1": {"trigger_delay": 0.05}},
    "motors": {"m1": {"delay": 0.1}},
    "sigs": {"s1": {"value": 1.0}, "s2": {"value": 5.0}},
    "flyers": {},
}
SIGS = ("s1", "s2")

# ------------------------------------------------------------------------------------------ oracle


def _intervals(obs, sig):
    """Monitoring intervals of one signal: [{u, stream, effective, desc, run_uid, v, stop, closed_by_msg}]
    u = hook index of the monitor message, v = hook index of the matching unmonitor message (or None)."""
    runs = {}
    for name, doc, hi in obs.docs:
        name = doc_name(name)
        if name == "start":
            runs[doc["uid"]] = {"start": hi, "stop": None, "closed_by_msg": False}
        elif name == "stop" and doc.get("run_start") in runs and runs[doc["run_start"]]["stop"] is None:
            r = runs[doc["run_start"]]
            r["stop"] = hi
            closer = obs.hook[hi - 1]["msg"] if 0 < hi <= len(obs.hook) else None
            r["closed_by_msg"] = closer is not None and closer.command == "close_run"
    out = []
    for u, h in enumerate(obs.hook):
        m = h["msg"]
        if m.command != "monitor" or getattr(m.obj, "name", None) != sig:
            continue
        iv = {"u": u, "stream": m.kwargs.get("name"), "effective": False, "desc": None, "run_uid": None, "v": None, "stop": None, "closed_by_msg": False}
        for name, doc, hi in obs.docs:
            if doc_name(name) == "descriptor" and hi == u + 1 and sig in (doc.get("data_keys") or {}) and doc.get("name") == iv["stream"]:
                iv.update(effective=True, desc=doc["uid"], run_uid=doc.get("run_start"))
        for v in range(u + 1, len(obs.hook)):
            m2 = obs.hook[v]["msg"]
            if m2.command == "unmonitor" and getattr(m2.obj, "name", None) == sig and m2.run == m.run:
                iv["v"] = v
                break
            if m2.command == "monitor" and getattr(m2.obj, "name", None) == sig:
                break
        r = runs.get(iv["run_uid"])
        if r is not None:
            iv["stop"] = r["stop"]
            iv["closed_by_msg"] = r["closed_by_msg"]
        out.append(iv)
    return out


def _susp_state(obs, p):
    """(depth, waiting, last_start) of the suspender helper after the first p hooked messages."""
    depth = 0
    last_start = None
    for i in range(p):
        c = obs.hook[i]["msg"].command
        if c == "_start_suspender":
            depth += 1
            last_start = i
        elif c == "_resume_from_suspender":
            depth = max(0, depth - 1)
    waiting = False
    if depth > 0 and p > 0:
        m = obs.hook[p - 1]["msg"]
        waiting = m.command == "wait_for" and id(m) not in obs.plog.msg_ids
    return depth, waiting, last_start


def classify(obs, rec, ivs):
    """-> (verdict, why, interval) with verdict in must / must_not / may."""
    p = rec["hook_index"]
    state = rec["state"]
    cur = None
    for iv in ivs:
        if iv["u"] < p:
            cur = iv
    if cur is None:
        return "must_not", "before_monitor", None
    if not cur["effective"]:
        return "must_not", "monitor_not_effective", cur
    if p == cur["u"] + 1:
        return "may", "monitor_in_flight", cur
    if cur["v"] is not None and p > cur["v"]:
        return "must_not", "after_unmonitor", cur
    if cur["stop"] is not None and p >= cur["stop"]:
        if cur["closed_by_msg"] or state == "idle" or p > cur["stop"]:
            return "must_not", "after_run", cur
        # the engine closed the run in its final cleanup, after the last message: an update that finds the engine
        # paused came before that; in any other state the cleanup may be under way
        if state == "paused":
            return "must_not", "paused", cur
        return "may", "engine_closing_run", cur
    if state == "idle":
        return "must_not", "after_run", cur
    if state == "paused":
        return "must_not", "paused", cur
    depth, waiting, _ = _susp_state(obs, p)
    if state == "running":
        if depth > 0:
            return ("must_not", "suspended", cur) if waiting else ("may", "suspension_helper", cur)
        return "must", "running", cur
    return "may", "state_" + state, cur


def _position_of_ledger(obs, L):
    """Number of messages hooked before ledger entry L was written."""
    p = 0
    for h in obs.hook:
        if h["ledger"] <= L:
            p += 1
        else:
            break
    return p


def oracle(case, obs, res):
    if obs.stuck:
        res.classes.append("stuck(C07)")
        return res
    ledger = obs.world.ledger
    base = e1common.features(case, obs)
    ifeat = e1oracles.interruption_features(obs)
    n_must = n_mustnot = 0
    any_effective = False
    for sig in SIGS:
        if sig not in obs.world.devices:
            continue
        ivs = _intervals(obs, sig)
        any_effective = any_effective or any(iv["effective"] for iv in ivs)

        def F(p, iv, **kw):
            # outcome-independent: was a suspension started earlier within the same monitoring interval?
            after_susp = False
            if iv is not None and iv["effective"]:
                for j in range(iv["u"] + 1, min(p, len(obs.hook))):
                    if obs.hook[j]["msg"].command == "_start_suspender" and (iv["v"] is None or j < iv["v"]):
                        after_susp = True
            return dict(base, **ifeat, sig=sig, after_suspension_start_in_interval=after_susp, **kw)

        # ---- ledger walk: subscriptions and callback invocations
        reads = []  # (ledger index, value, cause) in order; cause = ("put", L) | ("subscribe", L) | ("other", None)
        notify = {}  # ledger index of a put -> number of callback invocations it caused
        nsubs_at_put = {}
        count = 0
        i = 0
        mine = [e for e in ledger if e[1] == sig]
        while i < len(mine):
            L, _, op, info = mine[i]
            if op in ("put", "subscribe"):
                if op == "subscribe":
                    if count >= 1:
                        p = _position_of_ledger(obs, L)
                        iv = next((x for x in reversed(ivs) if x["u"] < p), None)
                        res.fail(
                            "double_subscription",
                            f"{sig}: the engine subscribed again (ledger#{L}, after {p} messages: {_cmd(obs, p - 1)}) while it already held {count} subscription(s)",
                            **F(p, iv),
                        )
                    count += 1
                else:
                    nsubs_at_put[L] = info[1]
                    notify[L] = 0
                j = i + 1
                exp = L + 1
                while j < len(mine) and mine[j][2] == "read" and mine[j][0] == exp:
                    val = obs.world.results[mine[j][3]][sig]["value"]
                    reads.append((mine[j][0], val, (op, L)))
                    if op == "put":
                        notify[L] += 1
                    exp += 1
                    j += 1
                i = j
                continue
            if op == "clear_sub":
                count = 0
            elif op == "read":
                reads.append((L, obs.world.results[info][sig]["value"], ("other", None)))
            i += 1

        # ---- every update
        for rec in obs.injected:
            inj = rec["inj"]
            if inj["do"] != "put" or inj["sig"] != sig:
                continue
            L = rec["ledger"]
            if L >= len(ledger) or ledger[L][1] != sig or ledger[L][2] != "put":
                raise HarnessError(f"put record does not match the ledger: {rec} vs {ledger[L] if L < len(ledger) else None}")
            verdict, why, iv = classify(obs, rec, ivs)
            if inj.get("on_doc") and rec["state"] != "running" and verdict == "must_not" and why in ("paused", "suspended"):
                # an update made from inside a document callback arrives in the middle of an engine step: a document
                # dispatched while the state label still says 'paused' belongs to the resume hand-over (monitors are
                # re-subscribed, which reports the current value, before the state changes)
                verdict, why = "may", "inside_document_callback_during_" + why
            n = notify.get(L, 0)
            res.classes.append(f"put:{verdict}:{why}" + (":main" if inj.get("main_thread") else ""))
            p = rec["hook_index"]
            what = f"update {sig}={inj['value']} ({'main thread' if inj.get('main_thread') else 'loop thread'}, state {rec['state']}, after {p} messages: {_cmd(obs, p - 1)}; {why})"
            if verdict == "must":
                n_must += 1
                if n == 0:
                    res.fail("update_not_reported", f"{what} must be reported once but the engine's callback was not invoked ({nsubs_at_put.get(L)} subscribers)", **F(p, iv, why=why))
            elif verdict == "must_not":
                if iv is not None and iv["effective"] and why != "before_monitor":
                    n_mustnot += 1
                if n > 0:
                    kind = {"paused": "reported_while_paused", "suspended": "reported_while_suspended"}.get(why, "reported_outside_monitoring")
                    res.fail(kind, f"{what} must not be reported but the engine's callback was invoked {n}x", **F(p, iv, why=why))
            if n > 1 and not (verdict == "must_not"):
                res.fail("reported_twice", f"{what} invoked the engine's callback {n}x (subscribed {nsubs_at_put.get(L)}x)", **F(p, iv, why=why))
            if why in ("after_unmonitor", "after_run") and nsubs_at_put.get(L, 0) > 0:
                res.fail("subscription_left", f"{what}: the signal still holds {nsubs_at_put[L]} engine subscription(s)", **F(p, iv, why=why))
        left = len(obs.world.devices[sig].subs)
        if left and obs.final_state == "idle":
            res.fail("subscription_left_at_end", f"{sig}: {left} subscription(s) left on the signal after the engine became idle", **F(len(obs.hook), ivs[-1] if ivs else None))

        # ---- events <-> callback invocations
        descs = {}
        stops = set()
        events = []
        for name, doc, hi in obs.docs:
            name = doc_name(name)
            if name == "descriptor" and sig in (doc.get("data_keys") or {}) and any(iv["desc"] == doc["uid"] for iv in ivs):
                descs[doc["uid"]] = doc
            elif name == "stop":
                stops.add(doc.get("run_start"))
            elif name == "event" and doc.get("descriptor") in descs:
                events.append((doc["data"].get(sig), descs[doc["descriptor"]]["run_start"] in stops, hi))
        vals_r = [v for (_, v, _) in reads]
        vals_e = [v for (v, _, _) in events]
        if vals_r != vals_e:
            res.fail(
                "events_differ_from_callback_invocations",
                f"{sig}: the engine's callback was invoked for values {vals_r} (ledger) but the monitor stream(s) carry {vals_e}",
                **F(len(obs.hook), ivs[-1] if ivs else None),
            )
        for v, closed, hi in events:
            if closed:
                res.fail("event_after_run_closed", f"{sig}: monitor event {v} emitted after its run's stop (after {hi} messages)", **F(hi, ivs[-1] if ivs else None))
        if any(c[0] == "other" for (_, _, c) in reads):
            res.classes.append("unattributed_read")
    for c in obs.calls:
        if c.get("outcome") == "raise" and c.get("do") == "put":
            res.classes.append("put_raised")
    res.nontrivial = bool(any_effective and n_must >= 1 and n_mustnot >= 1)
    return res


def _cmd(obs, i):
    if 0 <= i < len(obs.hook):
        return obs.hook[i]["msg"].command
    return "-"


check_case = e1common.make_check(oracle)

# ------------------------------------------------------------------------------------------ generator


def _pt(g):
    return [M("trigger", "d1", group=g), M("wait", None, group=g), M("create", None, name="primary"), M("read", "d1"), M("save")]


def _filler(draw, st, state, in_run, allow_pause=True):
    o = draw(st.sampled_from(["ck", "null", "sleep", "sleep", "pt", "set", "pause", "ck_pause"]))
    state["g"] += 1
    g = f"g{state['g']}"
    if o == "ck":
        return [M("checkpoint")]
    if o == "sleep":
        return [M("sleep", None, draw(st.sampled_from([0.1, 0.4, 1.5])))]
    if o == "pt" and in_run:
        return ([M("checkpoint")] if draw(st.booleans()) else []) + _pt(g)
    if o == "set":
        return [M("set", "m1", float(draw(st.integers(-2, 2))), group=g), M("wait", None, group=g)]
    if o in ("pause", "ck_pause") and allow_pause and state["pauses"] < 2:
        state["pauses"] += 1
        return [M("checkpoint"), M("pause")] if o == "ck_pause" else [M("pause")]
    return [M("null", None, state["g"])]


def cases():
    from hypothesis import strategies as st

    @st.composite
    def gen(draw):
        state = {"g": 0, "pauses": 0, "val": 10}
        nodes = []
        windows = []  # (index of the monitor message, index of the message ending the monitoring)
        n_runs = draw(st.sampled_from([1, 1, 2]))
        for ri in range(n_runs):
            for _ in range(draw(st.integers(0, 1))):
                nodes += _filler(draw, st, state, False)
            nodes.append(M("open_run", None, tag=f"r{ri}"))
            if draw(st.integers(0, 9)) < 7:
                nodes.append(M("checkpoint"))
            for _ in range(draw(st.integers(0, 1))):
                nodes += _filler(draw, st, state, True)
            sigs = ["s1"] if draw(st.integers(0, 2)) else ["s1", "s2"]
            mon = len(nodes)
            nodes.append(M("monitor", "s1", name="s1_mon"))
            body = []
            for _ in range(draw(st.integers(2, 5))):
                body += _filler(draw, st, state, True)
            if len(sigs) == 2:
                body.insert(draw(st.integers(0, min(2, len(body)))), M("monitor", "s2", name="s2_mon"))
            nodes += body
            ending = draw(st.sampled_from(["unmonitor", "unmonitor", "unmonitor", "close_clears", "engine_closes" if ri == n_runs - 1 else "close_clears"]))
            windows.append((mon, len(nodes)))
            if ending == "unmonitor":
                for s in sigs if draw(st.booleans()) else reversed(sigs):
                    nodes.append(M("unmonitor", s))
                    for _ in range(draw(st.integers(0, 1))):
                        nodes += _filler(draw, st, state, True)
            if ending != "engine_closes":
                nodes.append(M("close_run"))
                if draw(st.integers(0, 9)) < 9:
                    nodes.append(M("checkpoint"))
                for _ in range(draw(st.integers(0, 2))):
                    nodes += _filler(draw, st, state, False, allow_pause=False)
        n_msgs = len(nodes)

        def value(sig):
            state["val"] += 1
            return float(state["val"]) + (0.0 if sig == "s1" else 100.0)

        def position(first_stage, margin):
            if not first_stage:
                return draw(st.integers(0, 10))
            if draw(st.integers(0, 4)):
                a, b = windows[draw(st.integers(0, len(windows) - 1))]
                return draw(st.integers(a + margin, max(a + margin, b)))
            return draw(st.integers(0, n_msgs + 1))

        def put_inj(first_stage, **kw):
            sig = draw(st.sampled_from(["s1", "s1", "s2"]))
            inj = {"at_msg": position(first_stage, 1), "plus": draw(st.integers(0, 4)), "do": "put", "sig": sig, "value": value(sig)}
            if draw(st.integers(0, 3)) == 0:
                inj["after"] = draw(st.sampled_from([0.02, 0.2, 0.7, 3.0]))
            inj.update(kw)
            return inj

        def interruption(first_stage):
            kind = draw(st.sampled_from(["pause", "pause", "pause", "defer", "suspend", "suspend"]))
            # (mostly) not while the monitor message itself is in flight: a cancelled monitor is lost (F18)
            inj = {"at_msg": position(first_stage, 2), "plus": draw(st.integers(0, 4)), "do": kind}
            out = [inj]
            if kind == "suspend":
                tau = draw(st.sampled_from([0.3, 1.0]))
                inj["release_after"] = tau
                v = draw(st.integers(0, 3))
                if v == 1:
                    inj["pre"] = SEQ(M("null", None, "pre"))
                    inj["post"] = SEQ(M("null", None, "post"))
                elif v == 2:
                    inj["pre"] = SEQ(M("sleep", None, 0.1))
                # updates during the suspension (timed between request and release) and after the release
                for _ in range(draw(st.integers(0, 2))):
                    out.append(put_inj(first_stage, at_msg=inj["at_msg"], plus=inj["plus"], after=round(tau * draw(st.sampled_from([0.25, 0.5, 0.75])), 3)))
                if draw(st.booleans()):
                    out.append(put_inj(first_stage, at_msg=inj["at_msg"], plus=inj["plus"], after=tau + draw(st.sampled_from([0.01, 0.25, 2.0]))))
            elif draw(st.integers(0, 2)) == 0:
                # an update scheduled shortly before the pause that fires (virtual time) once the engine is paused
                out.append(put_inj(first_stage, at_msg=inj["at_msg"], plus=inj["plus"], after=draw(st.sampled_from([0.5, 5.0]))))
            return out

        injs = []
        for _ in range(draw(st.integers(1, 4))):
            injs.append(put_inj(True))
        n_int = draw(st.integers(0, 2))
        for _ in range(n_int):
            injs += interruption(True)
        stages = [{"do": "call", "inj": injs}]
        for _ in range(state["pauses"] + n_int + 1):
            for _ in range(draw(st.integers(0, 1))):
                sig = draw(st.sampled_from(["s1", "s1", "s2"]))
                stages.append({"do": "put", "sig": sig, "value": value(sig)})
            s = {"do": "resume"}
            extra = []
            for _ in range(draw(st.integers(0, 2))):
                extra.append(put_inj(False))
            if draw(st.integers(0, 3)) == 0:
                extra += interruption(False)
            if extra:
                s["inj"] = extra
            stages.append(s)
        stages.append({"do": "put", "sig": draw(st.sampled_from(["s1", "s1", "s2"])), "value": value("s1")})
        case = {"name": "gen:c41", "plan": SEQ(*nodes), "devices": copy.deepcopy(DEVICES), "stages": stages, "probe": True}
        if draw(st.integers(0, 3)) == 0:
            # a document consumer that updates a monitored signal from inside its callback
            case["re"] = {
                "doc_puts": [
                    {"on": draw(st.sampled_from(["stop", "stop", "event", "descriptor", "start"])), "nth": draw(st.integers(1, 2)), "sig": draw(st.sampled_from(["s1", "s1", "s2"])), "value": 77.0}
                ]
            }
        return case

    return gen()


# ------------------------------------------------------------------------------------------ sweep


def _sweep_plan(unmonitor=True):
    nodes = [
        M("open_run"),
        M("checkpoint"),
        M("monitor", "s1", name="s1_mon"),
        M("checkpoint"),
        M("sleep", None, 0.5),
        *_pt("a"),
        M("checkpoint"),
        M("sleep", None, 0.5),
    ]
    if unmonitor:
        nodes += [M("unmonitor", "s1"), M("sleep", None, 0.2)]
    nodes += [M("close_run"), M("checkpoint"), M("sleep", None, 0.2)]
    return SEQ(*nodes)


_NH = {}


def sweep_cases(seed, quick):
    """One update at every callback boundary k (x an update two boundaries after a pause / inside a suspension)."""
    from ..engine.harness import run_case

    for unmon in (True, False):
        base = {"name": f"monitor_sweep:unmonitor={unmon}", "plan": _sweep_plan(unmon), "devices": copy.deepcopy(DEVICES), "probe": True}
        if unmon not in _NH:
            _NH[unmon] = run_case(dict(base, stages=[{"do": "call"}])).calls[0]["handles"]
        n = _NH[unmon]
        for k in range(0, n + 2):
            if quick and k % 2 != seed % 2:
                continue
            for mode in ("plain", "pause", "suspend"):
                c = copy.deepcopy(base)
                injs = [{"at": k, "do": "put", "sig": "s1", "value": 11.0}]
                tail = [{"do": "put", "sig": "s1", "value": 99.0}]
                if mode == "plain":
                    c["stages"] = [{"do": "call", "inj": injs}] + tail
                    if k % 4 == 0:
                        # the same, with a document consumer that updates the signal from inside its callback
                        for on, nth in (("stop", 1), ("descriptor", 1), ("event", 2), ("start", 1)):
                            c2 = copy.deepcopy(c)
                            c2["re"] = {"doc_puts": [{"on": on, "nth": nth, "sig": "s1", "value": 21.0}]}
                            yield c2
                elif mode == "pause":
                    injs.append({"at": k + 1, "do": "pause"})
                    injs.append({"at": k + 1, "after": 4.0, "do": "put", "sig": "s1", "value": 12.0})
                    c["stages"] = [
                        {"do": "call", "inj": injs},
                        {"do": "put", "sig": "s1", "value": 13.0},
                        {"do": "resume", "inj": [{"at": 6, "do": "put", "sig": "s1", "value": 14.0}]},
                        {"do": "resume"},
                    ] + tail
                else:
                    injs.append({"at": k + 1, "do": "suspend", "release_after": 0.4})
                    injs.append({"at": k + 1, "after": 0.2, "do": "put", "sig": "s1", "value": 12.0})
                    injs.append({"at": k + 1, "after": 0.45, "do": "put", "sig": "s1", "value": 13.0})
                    c["stages"] = [{"do": "call", "inj": injs}, {"do": "resume"}] + tail
                yield c


def run(ctx):
    sw = list(sweep_cases(ctx.seed, ctx.quick))
    ctx.sweep(sw, check_case)
    ctx.extra["sweep_cases"] = len(sw)
    ctx.hyp(cases, check_case, max_examples=ctx.pick(1500, 30000), tag="c41")


def replay(case):
    return check_case(case)
