"""C05 seq_num and num_events account for every event exactly."""

from __future__ import annotations

import copy
import warnings

from ..core import Result, use_repo

use_repo()

from ..engine import e1common, e1oracles  # noqa: E402
from ..engine.harness import run_case  # noqa: E402
from ..engine.oracles import check_docs, doc_name, replay_model  # noqa: E402
from ..engine.planlang import D, M, SEQ  # noqa: E402

# a 'collect' cancelled by a pause leaves the coroutines of async get_index() un-awaited (harmless noise)
warnings.filterwarnings("ignore", message="coroutine .* was never awaited")

ID = "C05"
ENGINE = "E1"
DESIGN_REF = "DESIGN.md §8 C05"
TECHNIQUE = (
    "schedule enumeration (pause+resume / suspend+release at every loop-callback boundary of four hand-written plans) + "
    "Hypothesis-generated plans with bundled streams, monitors (signal puts injected at generated callbacks), "
    "record_interruptions, flyers and stream-asset detectors collected mid-run under 1-3 pause/suspend/deferred-pause "
    "interruptions, on the real RunEngine; numbering oracle over the emitted documents"
)
LEVEL_TEXT = (
    "For every closed run the emitted event/event_page/stream_datum/stop documents are re-read: per stream the "
    "seq_nums in emission order must count 1,2,3,... and end at num_events (missing key = 0); a seq_num may be emitted again "
    "only by the replay of the very message (save, or collect of a flyer) that emitted it before; monitor and interruption "
    "events and stream datums from collect must never reuse a seq_num; stream_datum seq_num ranges must tile [1, num_events+1) "
    "in emission order with the width of their indices."
)
LEVEL_NOTE = (
    "Exploration on fake devices and a harness-owned virtual-time loop. Events of a flyer whose 'collect' message is replayed "
    "after a rewind are accepted under re-used seq_nums (the statement does not list them among the never-replayed events). "
    "Every run that got a stop document is judged, whatever its exit_status."
)
RULE = (
    "case = (plan, devices incl. per-detector frame progressions, record_interruptions, stages with pause/defer/suspend and "
    "signal-put injections). Sweep: pause+resume, two suspend variants, pause+stop, pause+abort and suspend+foreign stop at every "
    "callback boundary of 4 plans (every fourth boundary, rotating with the seed, in the quick tier); Hypothesis: "
    "generated plans (1-2 runs; bundled points, monitors, flyer collects, stream-detector collects, step-scanned stream "
    "detector) with 1-3 interruptions, 0-4 puts and, in 3 of 8 cases, an abort/stop/halt (stage decision or foreign request). Non-trivial: at least one rewind (interruption with a non-empty replay "
    "cache) happened in a judged run after a monitor/interruption/flyer/stream-asset stream of that run had started, or a run "
    "ended before a rewound save/collect was executed again. "
    "Distinct = canonical JSON."
    " Also plans with non-rewindable regions that emit events (sweep plan nonrewindable_region, generator option 'nr') with requests aimed at the rewindable toggles."
)
ASSUMPTIONS = [
    "requests and signal updates arrive at boundaries between event-loop callbacks",
    "stream detectors publish [published, index) on collect_asset_docs(index) like ophyd-async's StandardDetector",
    "pause/deferred pause/suspend schedules; a paused or replaying plan may also be ended by abort/stop/halt",
]

# ------------------------------------------------------------------------------------------
# stream classification (outcome independent: from the executed messages and the device spec)

# events of these stream classes are emitted by a replayable message (the data-taking act that a rewind repeats)
REPLAYED_BY = {"bundled": "save", "flyer": "collect", "assets": "collect"}


def stream_classes(case, obs):
    """{stream name: class} with class in bundled | monitor | interruptions | flyer | assets."""
    cls = {"interruptions": "interruptions"}
    devs = case.get("devices") or {}
    flyers = devs.get("flyers", {})
    for h in obs.hook:
        m = h["msg"]
        c = m.command
        if c == "create":
            n = m.kwargs.get("name") or (m.args[0] if m.args else None)
            cls.setdefault(n, "bundled")
        elif c == "monitor":
            n = m.kwargs.get("name")
            if n is not None:
                cls.setdefault(n, "monitor")
        elif c == "declare_stream" and m.kwargs.get("collect"):
            cls.setdefault(m.kwargs.get("name"), "assets")
        elif c == "collect":
            name = getattr(m.obj, "name", None)
            if name in flyers:
                cls.setdefault(flyers[name].get("stream") or name, "flyer")
    return cls


IMPLICIT = {"stage", "unstage", "monitor", "unmonitor", "subscribe", "unsubscribe"}
# what really empties the engine's message cache (close_run does not: known defect F1)
CACHE_RESETS = IMPLICIT | {"checkpoint", "clear_checkpoint", "rewindable"}
UNCACHED = IMPLICIT | {"pause", "open_run", "close_run", "install_suspender", "remove_suspender", "_start_suspender"}


def _since_reset(obs, r):
    """Messages executed since the engine last emptied its message cache before hook index r (newest
    first).  Follows the code as it is, not the property: close_run does not empty the cache (F1), and
    an implicit-checkpoint message that was still in flight when the interruption hit may have been
    cancelled before it emptied the cache (F18)."""
    out = []
    i = min(r, len(obs.hook)) - 1
    first = True
    while i >= 0:
        m = obs.hook[i]["msg"]
        if m.command in CACHE_RESETS and not (first and m.command in IMPLICIT):
            break
        first = False
        if m.command not in UNCACHED:
            out.append(m)
        i -= 1
    return out


def rewinds(obs):
    """Hook indices at which the engine rewound (resumable interruption with something to replay)."""
    _, info = replay_model(obs)
    out = []
    for it in info["interruptions"]:
        if not it.get("resumable", True):
            continue
        if it["cache_len"] > 0 or _since_reset(obs, it["hook_index"]):
            out.append(it["hook_index"])
    return out


def unretaken(obs, rws):
    """[(rewind hook index, msg)]: data-taking messages (save / collect) that had been executed since the
    engine's last cache reset when it rewound, and that were never executed again afterwards (the plan
    was ended by abort/stop/halt or an exception before the replay reached them)."""
    out = []
    for r in rws:
        pend = [m for m in _since_reset(obs, r) if m.command in ("save", "collect")]
        later = {id(h["msg"]) for h in obs.hook[r:]}
        for m in pend:
            if id(m) not in later:
                out.append((r, m))
    return out


# ------------------------------------------------------------------------------------------
# numbering oracle


def _emitter(obs, hi):
    if 1 <= hi <= len(obs.hook):
        return obs.hook[hi - 1]["msg"]
    return None


def numbering(case, obs):
    """Returns (failures, info): failures = [(kind, detail, features)]."""
    fails = []
    classes = stream_classes(case, obs)
    record = bool((case.get("re") or {}).get("record_interruptions"))
    rws = rewinds(obs)
    lost = unretaken(obs, rws)
    open_keys = [h["msg"].run for h in obs.hook if h["msg"].command == "open_run"]  # open_run is never replayed
    runs, _ = check_docs(obs.docs, idle=False, validate=False)
    hook_of = [d[2] for d in obs.docs]
    pos = {}
    for order, item in enumerate(obs.docs):
        pos[id(item[1])] = order
    info = {"judged_runs": 0, "skipped_runs": 0, "nontrivial": False, "streams": set(), "rewinds": len(rws), "labels": set()}

    for ri, run in enumerate(runs.values()):
        if run.stop is None:
            info["skipped_runs"] += 1
            continue
        info["judged_runs"] += 1
        info["labels"].add("exit:" + str(run.stop.get("exit_status")))
        h_start = hook_of[pos[id(run.start)]]
        h_stop = hook_of[pos[id(run.stop)]]
        run_rws = [r for r in rws if h_start <= r <= h_stop]
        run_key = open_keys[ri] if ri < len(open_keys) else None
        # the run ended (abort/stop/halt, exception) before a rewound data point of it was taken again
        cut_short = any(h_start <= r <= h_stop and m.run == run_key for r, m in lost)
        if cut_short:
            info["labels"].add("terminated_before_retake")
            info["nontrivial"] = True
        ne = run.stop.get("num_events", None)
        if not isinstance(ne, dict):
            ne = {}
        desc_hook = {}  # stream -> hook index of its first descriptor
        desc_name = {}
        for duid, d in run.descriptors.items():
            desc_name[duid] = d["name"]
            desc_hook.setdefault(d["name"], hook_of[pos[id(d)]])
        by_stream = run.events_by_stream()
        for name in desc_hook:
            by_stream.setdefault(name, [])

        def feats(stream):
            klass = classes.get(stream, "unknown")
            live = any(desc_hook.get(stream, 10**9) <= r for r in run_rws)
            f = {"stream_class": klass, "rewind_after_stream_start": live, "terminated_before_retake": cut_short}
            if klass == "interruptions":
                # the feature names of the known-findings entry F5 (owned by C40): recording on and a
                # non-empty rewind while the recording run was open
                f["record"] = record
                f["rewind_nonempty_with_recording_run_open"] = bool(record and live)
            return f

        datum_streams = {desc_name.get(sd.get("descriptor")) for sd in run.stream_datums}
        for stream, evs in sorted(by_stream.items()):
            klass = classes.get(stream, "unknown")
            if not evs and stream in datum_streams:
                continue  # the stream's seq_nums are carried by its stream datums only (judged below)
            info["streams"].add(klass)
            f = feats(stream)
            if klass != "bundled" and f["rewind_after_stream_start"]:
                info["nontrivial"] = True
            n = ne.get(stream, 0)
            if not isinstance(n, int) or isinstance(n, bool) or n < 0:
                fails.append(("num_events_not_a_count", f"stream {stream}: num_events={n!r}", f))
                continue
            nxt = 1
            top = 0  # highest seq_num emitted so far: "the emitted seq_nums are exactly 1..N"
            first = {}  # seq_num -> (id(emitter), j)
            per_exec = {}  # hook index -> events of this stream emitted by that execution so far
            bad = False
            for e in evs:
                s = e["seq_num"]
                hi = hook_of[e["_vf_order"]]
                j = per_exec.get(hi, 0)
                per_exec[hi] = j + 1
                em = _emitter(obs, hi)
                key = (id(em), j)
                if not isinstance(s, int) or isinstance(s, bool):
                    fails.append(("seq_num_not_int", f"stream {stream}: seq_num {s!r}", f))
                    bad = True
                    break
                if s == nxt:
                    first.setdefault(s, key)
                    nxt += 1
                    top = max(top, s)
                elif s > nxt or s < 1:
                    fails.append(
                        ("seq_gap", f"stream {stream} ({klass}): seq_num {s} emitted when {nxt} was next; emission order {[x['seq_num'] for x in evs]}", f)
                    )
                    bad = True
                    break
                else:  # s < nxt: a seq_num is used again
                    replayable = em is not None and REPLAYED_BY.get(klass) == em.command
                    if replayable and first.get(s) == key:
                        info["labels"].add("retaken_" + klass)
                        nxt = s + 1
                    else:
                        kind = "seq_reused_by_other_point" if klass in REPLAYED_BY else "duplicate_seq_num"
                        fails.append(
                            (
                                kind,
                                f"stream {stream} ({klass}): seq_num {s} emitted again by {em.command if em is not None else None} "
                                f"(hook#{hi}) which is not a replay of the message that emitted it first; emission order "
                                f"{[x['seq_num'] for x in evs]}, num_events={n}",
                                f,
                            )
                        )
                        bad = True
                        break
            # N is the largest emitted number: a point that was emitted, rolled back by a rewind and never re-taken
            # because the run ended first (two points since the checkpoint, pause, resume, pause again, abort) still counts
            if not bad and top != n:
                fails.append(
                    (
                        "num_events_mismatch",
                        f"stream {stream} ({klass}): num_events={n} ({'key present' if stream in ne else 'key missing'}) but the "
                        f"highest emitted seq_num is {top}; emission order {[x['seq_num'] for x in evs]}",
                        f,
                    )
                )
        for stream in ne:
            if stream not in by_stream and ne[stream] != 0:
                fails.append(("num_events_unknown_stream", f"num_events names stream {stream!r} ({ne[stream]}) which has no descriptor", feats(stream)))

        # ---- stream datums: per (stream, data key) the seq_num ranges tile [1, N+1) in emission order
        per_key = {}
        for sd in run.stream_datums:
            res = run.stream_resources.get(sd["stream_resource"], {})
            stream = desc_name.get(sd.get("descriptor"))
            per_key.setdefault((stream, res.get("data_key")), []).append(sd)
        for (stream, key), sds in sorted(per_key.items(), key=repr):
            klass = classes.get(stream, "unknown")
            f = dict(feats(stream))
            f["datum"] = True
            if klass != "bundled" and f["rewind_after_stream_start"]:
                info["nontrivial"] = True
            info["streams"].add("datum:" + klass)
            n = ne.get(stream, 0)
            nxt = 1
            first = {}
            bad = False
            trace = [(x["seq_nums"]["start"], x["seq_nums"]["stop"]) for x in sds]
            for sd in sds:
                a, b = sd["seq_nums"]["start"], sd["seq_nums"]["stop"]
                ia, ib = sd["indices"]["start"], sd["indices"]["stop"]
                hi = hook_of[sd["_vf_order"]]
                em = _emitter(obs, hi)
                if b - a != ib - ia or b <= a:
                    fails.append(("datum_width_mismatch", f"stream {stream} key {key}: seq_nums [{a},{b}) vs indices [{ia},{ib})", f))
                    bad = True
                    break
                if a == nxt:
                    first.setdefault(a, id(em))
                    nxt = b
                elif a > nxt or a < 1:
                    fails.append(("datum_seq_gap", f"stream {stream} ({klass}) key {key}: stream_datum seq_nums {trace}: [{a},{b}) does not continue at {nxt}", f))
                    bad = True
                    break
                else:
                    if klass == "bundled" and em is not None and em.command == "save" and first.get(a) == id(em):
                        nxt = b
                    else:
                        fails.append(
                            (
                                "datum_seq_reused",
                                f"stream {stream} ({klass}) key {key}: stream_datum seq_nums in emission order {trace}: [{a},{b}) re-uses "
                                f"seq_nums below {nxt} (indices {[(x['indices']['start'], x['indices']['stop']) for x in sds]}, num_events={n})",
                                f,
                            )
                        )
                        bad = True
                        break
            if not bad and nxt - 1 != n:
                fails.append(
                    ("datum_end_vs_num_events", f"stream {stream} ({klass}) key {key}: stream_datum seq_nums {trace} end at {nxt - 1} but num_events={n}", f)
                )
    return fails, info


def oracle(case, obs, res):
    if obs.stuck:
        res.classes.append("stuck(C07)")
        return res
    fails, info = numbering(case, obs)
    base = None
    for kind, detail, f in fails:
        if base is None:
            base = dict(e1common.features(case, obs))
            base.update(e1oracles.interruption_features(obs))
            base["record_interruptions"] = bool((case.get("re") or {}).get("record_interruptions"))
        ff = dict(base)
        ff.update(f)
        res.fail(kind, detail, **ff)
    res.nontrivial = bool(info["nontrivial"]) and info["judged_runs"] > 0
    res.classes.append(f"rewinds:{min(info['rewinds'], 3)}")
    res.classes.append(f"judged_runs:{info['judged_runs']}")
    if info["skipped_runs"]:
        res.classes.append("run_without_stop(skipped)")
    for s in sorted(info["streams"]):
        res.classes.append("stream:" + s)
    for lab in sorted(info["labels"]):
        res.classes.append(lab)
    return res


check_case = e1common.make_check(oracle)

# ------------------------------------------------------------------------------------------
# corpus for the schedule sweep


def _pt(det, stream, ck=False, run=None, g="g"):
    nodes = [M("checkpoint")] if ck else []
    nodes += [
        M("trigger", det, group=g),
        M("wait", None, group=g),
        M("create", None, name=stream, run=run),
        M("read", det, run=run),
        M("save", None, run=run),
    ]
    return nodes


def _collect(objs, name=None, run=None):
    kw = {"name": name} if name else {}
    return M("collect", objs[0], *[D(o) for o in objs[1:]], run=run, **kw)


def _declare(objs, name, run=None):
    return M("declare_stream", None, *[D(o) for o in objs], name=name, collect=True, run=run)


SWEEP_DEVICES = {
    "dets": {"d1": {"trigger_delay": 0.05}, "d2": {"keys": ["d2a", "d2b"], "salt": 7.0}},
    "motors": {"m1": {"delay": 0.1}},
    "sigs": {"s1": {"value": 1.0}, "s2": {"value": 5.0}},
    "flyers": {"f1": {"n_events": 2}, "f2": {"n_events": 1, "pages": True}},
    "streamdets": {
        "x1": {"frames": [2, 3, 3, 6, 7]},
        "x2": {"frames": [1, 4, 5, 5, 9], "keys": ["x2_a", "x2_b"], "async_": True},
        "x3": {"frames": [1, 3, 4, 4, 6], "pages": True},
        "x4": {"scalar": True, "trigger_delay": 0.05},
    },
}


def _plan_mon_int():
    return SEQ(
        M("open_run"),
        M("monitor", "s1", name="s1_mon"),
        M("checkpoint"),
        *_pt("d1", "primary"),
        *_pt("d1", "primary"),
        M("checkpoint"),
        *_pt("d2", "aux"),
        M("null"),
        M("unmonitor", "s1"),
        M("checkpoint"),
        M("close_run"),
    )


def _plan_fly_assets():
    ab = ["x1", "x2"]
    return SEQ(
        M("open_run"),
        _declare(ab, "flyAB"),
        M("kickoff", "f1", group="k"),
        M("wait", None, group="k"),
        M("checkpoint"),
        _collect(ab, "flyAB"),
        *_pt("d1", "primary"),
        _collect(["f1"]),
        _collect(ab, "flyAB"),
        M("checkpoint"),
        *_pt("d1", "primary"),
        _collect(ab, "flyAB"),
        M("complete", "f1", group="c"),
        M("wait", None, group="c"),
        _collect(["f1"]),
        _collect(ab, "flyAB"),
        M("close_run"),
    )


def _plan_pages_steps():
    return SEQ(
        M("open_run"),
        _declare(["x3"], "flyC"),
        _declare(["x1"], "flyA"),
        M("kickoff", "f2", group="k"),
        M("wait", None, group="k"),
        M("checkpoint"),
        *_pt("x4", "steps"),
        _collect(["x3"], "flyC"),
        _collect(["x1"], "flyA"),
        *_pt("x4", "steps"),
        _collect(["f2"]),
        M("checkpoint"),
        _collect(["x3"], "flyC"),
        *_pt("x4", "steps"),
        _collect(["x1"], "flyA"),
        M("complete", "f2", group="c"),
        M("wait", None, group="c"),
        _collect(["f2"]),
        M("close_run"),
    )


def _plan_two_runs():
    return SEQ(
        M("open_run", None, run="A", tag="A"),
        M("open_run", None, run="B", tag="B"),
        M("monitor", "s1", name="s1_monA", run="A"),
        M("monitor", "s2", name="s2_monB", run="B"),
        M("checkpoint"),
        *_pt("d1", "primaryA", run="A"),
        *_pt("d2", "primaryB", run="B"),
        M("sleep", None, 0.1),
        *_pt("d1", "primaryA", run="A"),
        M("checkpoint"),
        *_pt("d2", "primaryB", run="B"),
        M("unmonitor", "s2", run="B"),
        M("close_run", None, run="B"),
        M("checkpoint"),
        *_pt("d1", "primaryA", run="A"),
        M("unmonitor", "s1", run="A"),
        M("close_run", None, run="A"),
    )


def _puts(*specs):
    return [{"at_msg": j, "plus": p, "do": "put", "sig": s, "value": v} for (j, p, s, v) in specs]


def _plan_nonrewindable_region():
    """Events emitted while the plan is marked non-rewindable, then cached work without a checkpoint."""
    return SEQ(
        M("open_run"),
        M("checkpoint"),
        *_pt("d1", "primary"),
        M("rewindable", None, False),
        *_pt("d1", "primary", g="g2"),
        *_pt("d2", "aux", g="g3"),
        M("rewindable", None, True),
        M("null", None, "after-nr"),
        M("sleep", None, 0.1),
        *_pt("d1", "primary", g="g4"),
        M("checkpoint"),
        *_pt("d2", "aux", g="g5"),
        M("close_run"),
    )


SWEEP = {
    # name: (plan, record_interruptions, put injections of the call stage, put injections of the resume stage)
    "mon_int": (_plan_mon_int, True, _puts((4, 1, "s1", 2.0), (9, 0, "s1", 3.0), (15, 2, "s1", 4.0)), _puts((3, 0, "s1", 9.0))),
    "fly_assets": (_plan_fly_assets, False, [], []),
    "nonrewindable_region": (_plan_nonrewindable_region, True, [], []),
    "pages_steps": (_plan_pages_steps, True, [], []),
    "two_runs": (_plan_two_runs, True, _puts((6, 0, "s1", 2.0), (8, 1, "s2", 6.0), (14, 0, "s1", 3.0), (16, 0, "s2", 7.0)), _puts((2, 0, "s2", 8.0))),
}


def sweep_base(name):
    plan, ri, puts0, puts1 = SWEEP[name]
    return {
        "name": name,
        "plan": plan(),
        "devices": copy.deepcopy(SWEEP_DEVICES),
        "re": {"record_interruptions": ri},
        "stages": [{"do": "call", "inj": copy.deepcopy(puts0)}],
    }, puts1


_HANDLES = {}


def sweep_handles(name):
    if name not in _HANDLES:
        base, _ = sweep_base(name)
        obs = run_case(base)
        _HANDLES[name] = obs.calls[0]["handles"]
    return _HANDLES[name]


def sweep_cases(names, step=1, offset=0):
    for name in names:
        n = sweep_handles(name)
        for k in range(offset, n + 2, step):
            for kind in ("pause", "suspend", "suspend_pre", "pause_stop", "pause_abort", "suspend_stop"):
                c, puts1 = sweep_base(name)
                if kind in ("pause_stop", "pause_abort"):
                    # the run is ended instead of resumed: rewound points are never taken again
                    c["stages"][0]["inj"].append({"at": k, "do": "pause"})
                    c["stages"].append({"do": kind[6:]})
                    yield c
                    continue
                if kind == "suspend_stop":
                    # a foreign stop while the suspension is being released / the replay is running
                    c["stages"][0]["inj"].append({"at": k, "do": "suspend", "release_after": 0.2, "pre": None, "post": None})
                    c["stages"][0]["inj"].append({"at": k + 9 + (k % 7), "do": "stop"})
                    c["stages"].append({"do": "resume"})
                    yield c
                    continue
                if kind == "pause":
                    inj = {"at": k, "do": "pause"}
                elif kind == "suspend":
                    inj = {"at": k, "do": "suspend", "release_after": 0.7, "pre": None, "post": None}
                else:
                    inj = {
                        "at": k,
                        "do": "suspend",
                        "release_after": 0.2,
                        "pre": SEQ(M("null", None, "pre")),
                        "post": SEQ(M("null", None, "post")),
                        "just": "beam dump",
                    }
                c["stages"][0]["inj"].append(inj)
                c["stages"].append({"do": "resume", "inj": copy.deepcopy(puts1)})
                c["stages"].append({"do": "resume"})
                yield c


# ------------------------------------------------------------------------------------------
# generated plans


def cases():
    from hypothesis import strategies as st

    @st.composite
    def progression(draw):
        n = draw(st.integers(1, 6))
        v = 0
        out = []
        for _ in range(n):
            v += draw(st.integers(0, 3))
            out.append(v)
        return out

    @st.composite
    def gen(draw):
        chance = lambda p: draw(st.integers(0, 99)) < int(p * 100)  # noqa: E731
        choice = lambda xs: draw(st.sampled_from(list(xs)))  # noqa: E731
        gid = [0]

        def group():
            gid[0] += 1
            return f"g{gid[0]}"

        devices = copy.deepcopy(SWEEP_DEVICES)
        for x in ("x1", "x2", "x3"):
            devices["streamdets"][x]["frames"] = draw(progression())
        devices["streamdets"]["x2"]["async_"] = draw(st.booleans())
        two = chance(0.25)
        main = "A" if two else None
        sfx = "A" if two else ""
        nodes = [M("open_run", None, run=main, tag="main")]
        if two:
            nodes.append(M("open_run", None, run="B", tag="B"))
        groups = choice([[], [], ["A"], ["AB"], ["C"], ["A", "C"], ["AB", "C"]])
        gobjs = {"A": ["x1"], "AB": ["x1", "x2"], "C": ["x3"]}
        for gname in groups:
            nodes.append(_declare(gobjs[gname], "fly" + gname, run=main))
        flyers = choice([[], [], ["f1"], ["f2"], ["f1", "f2"]])
        if flyers:
            g = group()
            for fl in flyers:
                nodes.append(M("kickoff", fl, group=g, run=main))
            nodes.append(M("wait", None, group=g))
        if chance(0.7):
            nodes.append(M("checkpoint"))
        monitored = {}  # sig -> run key
        sigs = choice([[], ["s1"], ["s1"], ["s1", "s2"]])
        nitems = draw(st.integers(2, 9))
        for _ in range(nitems):
            opts = ["ck", "ck", "pt", "pt", "pt", "pt", "null", "nr"]
            if sigs:
                opts += ["mon", "mon"]
            if flyers:
                opts += ["cfly", "cfly"]
            if groups:
                opts += ["cass", "cass", "cass"]
            o = choice(opts)
            if o == "ck":
                nodes.append(M("checkpoint"))
            elif o == "null":
                nodes.append(M("sleep", None, choice([0.0, 0.1, 0.6])) if chance(0.5) else M("null", None, draw(st.integers(0, 9))))
            elif o == "pt":
                rk = choice([main, main, "B"]) if two else main
                which = choice(["d1", "d1", "d2", "x4"]) if rk == main else choice(["d1", "d2"])
                stream = {"d1": "primary", "d2": "aux", "x4": "steps"}[which] + (str(rk) if two else "")
                nodes += _pt(which, stream, ck=chance(0.4), run=rk, g=group())
            elif o == "nr":
                # a non-rewindable region that emits events, followed by cached work without a checkpoint
                rk = main
                nodes.append(M("rewindable", None, False))
                for _ in range(draw(st.integers(0, 2))):
                    which = choice(["d1", "d2"])
                    nodes += _pt(which, {"d1": "primary", "d2": "aux"}[which] + (str(rk) if two else ""), ck=False, run=rk, g=group())
                nodes.append(M("rewindable", None, True))
                nodes.append(M("null", None, "after-nr"))
                if chance(0.5):
                    nodes.append(M("sleep", None, 0.1))
                if chance(0.5):
                    which = choice(["d1", "d2"])
                    nodes += _pt(which, {"d1": "primary", "d2": "aux"}[which] + (str(rk) if two else ""), ck=False, run=rk, g=group())
            elif o == "mon":
                free = [s for s in sigs if s not in monitored]
                if free and (not monitored or chance(0.6)):
                    s = choice(free)
                    rk = choice([main, "B"]) if two else main
                    monitored[s] = rk
                    nodes.append(M("monitor", s, name=f"{s}_mon{rk if two else ''}", run=rk))
                elif monitored:
                    s = choice(sorted(monitored))
                    nodes.append(M("unmonitor", s, run=monitored.pop(s)))
            elif o == "cfly":
                nodes.append(_collect([choice(flyers)], run=main))
            elif o == "cass":
                gname = choice(groups)
                nodes.append(_collect(gobjs[gname], "fly" + gname, run=main))
        for s in sorted(monitored):
            nodes.append(M("unmonitor", s, run=monitored[s]))
        if flyers:
            g = group()
            for fl in flyers:
                nodes.append(M("complete", fl, group=g, run=main))
            nodes.append(M("wait", None, group=g))
            for fl in flyers:
                nodes.append(_collect([fl], run=main))
        for gname in groups:
            nodes.append(_collect(gobjs[gname], "fly" + gname, run=main))
        if chance(0.3):
            nodes.append(M("checkpoint"))
        if two:
            order = choice([["B", "A"], ["A", "B"]])
            for rk in order:
                nodes.append(M("close_run", None, run=rk))
                if chance(0.5):
                    nodes.append(M("checkpoint"))
        else:
            nodes.append(M("close_run"))
        _ = sfx

        def interruption():
            kind = choice(["pause", "pause", "pause", "suspend", "suspend", "defer"])
            inj = {"at_msg": draw(st.integers(0, 40)), "plus": draw(st.integers(0, 4)), "do": kind}
            if kind == "suspend":
                inj["release_after"] = choice([0.05, 0.4, 1.0])
                if chance(0.4):
                    inj["pre"] = SEQ(M("null", None, "pre"))
                    inj["post"] = SEQ(M("null", None, "post"))
                    inj["just"] = "because"
            return inj

        def put():
            return {
                "at_msg": draw(st.integers(0, 40)),
                "plus": draw(st.integers(0, 3)),
                "do": "put",
                "sig": choice(["s1", "s2"]),
                "value": float(draw(st.integers(0, 9))),
            }

        stages = [{"do": "call", "inj": [interruption()]}]
        n_rw = sum(1 for n in nodes if n[0] == "msg" and n[1] == "rewindable")
        if n_rw and chance(0.6):
            # aim the request at the messages around a rewindability toggle
            ij = stages[0]["inj"][0]
            ij.pop("at_msg")
            ij.update(at_cmd="rewindable", nth=draw(st.integers(1, n_rw)), plus_msgs=draw(st.integers(0, 5)))
        if sigs:
            for _ in range(draw(st.integers(0, 4))):
                stages[0]["inj"].append(put())
        # in a quarter of the cases the plan is ended instead of (or after being) resumed: a stage decision
        # abort/stop/halt while paused, or a foreign abort/stop/halt some callbacks into a stage
        ender = choice([None, None, None, None, None, "decision", "decision", "foreign"])
        end_stage = draw(st.integers(0, 1))
        if ender == "foreign":
            stages[0]["inj"].append({"at_msg": draw(st.integers(0, 40)), "plus": draw(st.integers(0, 30)), "do": choice(["abort", "stop", "halt"])})
        for i in range(4):
            s = {"do": "resume"}
            if ender == "decision" and i == end_stage:
                s = {"do": choice(["abort", "stop", "stop", "halt"])}
                stages.append(s)
                continue
            inj = []
            if i < 2 and chance(0.35):
                ij = interruption()
                ij["at_msg"] = draw(st.integers(0, 20))
                inj.append(ij)
            if sigs and i < 2 and chance(0.4):
                p = put()
                p["at_msg"] = draw(st.integers(0, 20))
                inj.append(p)
            if inj:
                s["inj"] = inj
            stages.append(s)
        return {
            "name": "gen:c05",
            "plan": SEQ(*nodes),
            "devices": devices,
            "re": {"record_interruptions": chance(0.5)},
            "stages": stages,
        }

    return gen()


def double_rewind_cases(step_k, js):
    """pause after a save -> resume, pause again during the re-take -> resume -> terminator before the point
    is re-taken (two rewinds of the same data point, then the run ends)."""
    from ..engine import corpus

    for name in ("count2", "custom_ck"):
        n = corpus.n_handles(name)
        for k in range(8 + (0 if name == "count2" else 1), n, step_k):
            for j in js:
                for j2 in js:
                    for term in ("abort", "stop"):
                        c = corpus.base_case(name)
                        c["name"] = name
                        c["stages"] = [
                            {"do": "call", "inj": [{"at": k, "do": "pause"}]},
                            {"do": "resume", "inj": [{"at": j, "do": "pause"}]},
                            {"do": "resume", "inj": [{"at": j2, "do": term}]},
                            {"do": "resume"},
                        ]
                        yield c


def run(ctx):
    names = list(SWEEP)
    step = ctx.pick(4, 1)
    cases_ = list(sweep_cases(names, step=step, offset=ctx.seed % step))
    cases_ += list(double_rewind_cases(ctx.pick(2, 1), ctx.pick((1, 4, 8, 12), tuple(range(0, 16)))))
    ctx.sweep(cases_, check_case)
    ctx.extra["sweep_cases"] = len(cases_)
    ctx.bound = "pause+resume, 2 suspend variants, pause+stop, pause+abort, suspend+foreign stop at every %scallback boundary of the 5 sweep plans" % ("fourth " if ctx.quick else "")
    ctx.hyp(cases, check_case, max_examples=ctx.pick(1200, 30000), tag="c05")


def replay(case):
    return check_case(case)
