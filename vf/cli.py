"""``/verif/check <ID> quick|thorough`` and ``/verif/check <ID> --replay <file>``.

Exit codes: 0 property held on everything explored (known findings are reported as
``KNOWN-FINDING:`` lines); 1 with a ``VIOLATION property=<id> replay=<path>`` line; 2 harness
error / inconclusive (never reported as a violation).
"""

from __future__ import annotations

import glob
import importlib
import json
import os
import sys
import traceback

from . import core


def _load(pid):
    core.use_repo()
    return importlib.import_module(f"vf.props.{pid.lower()}")


def _replay_file(mod, path):
    data = json.load(open(path))
    res = mod.replay(data["case"])
    return data, res


def _replay_tier(ctx, mod):
    """Re-run pinned replay files first: regression inputs must pass, finding reproducers must
    still be explained by their finding (or have stopped failing)."""
    viol = []
    for path in sorted(glob.glob(os.path.join(core.VERIF, "replays", ctx.pid, "*.json"))):
        data, res = _replay_file(mod, path)
        res.classes.append("replay-file")
        unknown = ctx.col.record(data["case"], res)
        expect = data.get("expect", "pass")
        if unknown:
            viol.append((os.path.relpath(path, core.VERIF), [f.to_json() for f in unknown]))
            if ctx.col.violations and ctx.col.violations[-1][0] == core.jsonable(data["case"]):
                ctx.col.violations.pop()
        elif expect.startswith("finding:") and not res.failures:
            ctx.col.notes[f"finding_reproducer_no_longer_fails:{expect[8:]}"] += 1
    return viol


def main(argv=None):
    argv = list(sys.argv[1:] if argv is None else argv)
    if len(argv) < 2:
        print(__doc__)
        return 2
    pid = argv[0].upper()
    seed = int(os.environ.get("VERIF_SEED", "1") or 1)
    try:
        mod = _load(pid)
        if argv[1] == "--replay":
            path = argv[2]
            if not os.path.isabs(path):
                path = os.path.join(core.VERIF, path)
            data, res = _replay_file(mod, path)
            known = core.KnownFindings(pid)
            unknown = [f for f in res.failures if known.match(f) is None]
            for f in res.failures:
                fid = known.match(f)
                tag = f"known finding {fid}" if fid else "UNLISTED"
                print(f"replay failure [{tag}] kind={f.kind}: {f.detail}")
            if unknown:
                print(f"VIOLATION property={pid} replay={os.path.relpath(path, core.VERIF)}")
                return 1
            print(f"replay of {path}: property held" + (" (known finding reproduced)" if res.failures else ""))
            return 0
        tier = argv[1]
        if tier not in ("quick", "thorough"):
            print("tier must be quick or thorough")
            return 2
        os.environ["VERIF_TIER"] = tier
        ctx = core.Ctx(pid, tier, seed)
        replay_viol = _replay_tier(ctx, mod)
        mod.run(ctx)
    except core.HarnessError as e:
        print(f"HARNESS-ERROR property={pid}: inconclusive\n{e}")
        return 2
    except Exception:
        print(f"HARNESS-ERROR property={pid}: inconclusive")
        traceback.print_exc()
        return 2

    col = ctx.col
    nviol = len(replay_viol) + len(col.violations)
    if not os.environ.get("VERIF_NO_EVIDENCE"):
        core.write_evidence(ctx, mod, nviol)
    known = core.KnownFindings(pid)
    for e in known.findings:
        print(f"KNOWN-FINDING: property={pid} {e['id']}: {e['title']} (matched {col.excluded_known.get(e['id'], 0)} cases this run)")
    print(
        f"{pid} {tier} seed={seed}: evaluations={col.evaluations} distinct_nontrivial={len(col.nontrivial_hashes)} "
        f"classes={dict(col.classes.most_common(12))} wall={round(__import__('time').time() - ctx.t0, 1)}s"
    )
    if os.environ.get("VERIF_TRIAGE"):
        os.makedirs(os.path.join(core.VERIF, "failures", pid), exist_ok=True)
        rows = sorted(col.buckets.items(), key=lambda kv: -kv[1][0])
        with open(os.path.join(core.VERIF, "failures", pid, "triage.json"), "w") as f:
            json.dump([{"key": list(map(str, k)), "count": v[0], "case": v[1], "detail": v[2]} for k, v in rows], f, indent=1)
        for k, v in rows[:40]:
            print(f"  TRIAGE {v[0]:6d} {k[0]} " + " ".join(f"{a}={b}" for a, b in k[1:]))
    if nviol:
        reported = set()
        for path, fails in replay_viol:
            print(f"  regression replay fails: {fails[0]['kind']}: {fails[0]['detail'][:500]}")
            print(f"VIOLATION property={pid} replay={path}")
            reported.add(path)
        replay_cases = set()
        for case, fails in col.violations:
            h = core.case_hash(case)
            if h in replay_cases:
                continue
            replay_cases.add(h)
            path = core.write_failure(pid, case, fails, seed, tier)
            if path in reported:
                continue
            print(f"  failure: {fails[0]['kind']}: {fails[0]['detail'][:500]}")
            print(f"VIOLATION property={pid} replay={path}")
        return 1
    return 0


if __name__ == "__main__":
    sys.exit(main())
