"""Engine E2 -- generator driver (DESIGN.md section 2.2).

No RunEngine is involved.  Plans are Python generators of ``bluesky.utils.Msg``; this module

1. defines a JSON-serialisable *plan-program grammar* and compiles a program into a real Python
   generator function (real ``try/except/else/finally``, real ``yield from`` for nested plans, real
   ``return``) whose instances log what they *see* (responses received, exceptions arriving at a
   yield, handlers entered, ``finally`` entries, sub-plan return values);
2. provides a *driver* that runs any generator under a script of the things a RunEngine can do to a
   plan -- ``send(v)``, ``throw(E)`` (``Exception`` instances or classes, ``RequestStop`` /
   ``RequestAbort``, ``PlanHalt`` which is a ``GeneratorExit`` subclass) and ``close()`` -- with a
   runaway cap, recording the trace (message identity, action, outcome);
3. provides Hypothesis strategies that build programs and then build the script *against* the
   program (the reference generator is stepped while the script is drawn, so that throws / closes
   are aimed at yields that lie inside ``try`` bodies, handlers, ``else`` and ``finally`` clauses, and
   thrown exception types are aimed at the enclosing handlers).

Program grammar (every node is a JSON object, ``prog = {"pool": [msgspec, ...], "body": node}``)::

    {"op": "y",   "m": k}                         yield pool message k (the same object every time)
    {"op": "yf",  "spec": msgspec}                yield a freshly created message
    {"op": "ybr", "m": k | "spec": msgspec, "eq": v, "a": node, "b": node}
                                                  yield, then run ``a`` if the response == v else ``b``
    {"op": "seq", "body": [node, ...]}
    {"op": "sub", "body": node}                   ``v = yield from <nested generator>(body)``
    {"op": "try", "body": node, "handlers": [{"exc": [names], "body": node, "reraise": bool}],
                  "else": node | null, "finally": node | null}
    {"op": "raise", "exc": name, "arg": str}
    {"op": "ret", "v": json}
    {"op": "nop"}

``msgspec = {"cmd": str, "obj": name | null, "args": [...], "kw": {...}, "run": ... }``; object names
are resolved through ``Env.objs``.  Programs never yield ``None``.

Actions of a script::

    ["send", v]   ["throw", exc_name, arg, as_class]   ["close"]

``["send", "auto"]`` lets ``Driver.responder(msg)`` (a scripted engine) choose the value.  Action 0 is
applied to the un-started generator (normally ``["send", null]``).  When the script is exhausted and
the generator is still alive the driver keeps sending ``None`` / the responder's answers (bounded by
``cap``; hitting the cap is recorded as outcome ``["runaway"]``).

Observation of a run = ``observation(env, driver)``: the driver trace ``[[action, outcome], ...]`` with
outcomes ``["yield", mid] | ["return", v] | ["raise", eid] | ["closed"]`` plus the per-program logs
(``start``, ``yield``, ``recv``, ``exc_at``, ``caught``, ``else``, ``finally``, ``subret``, ``raise``).  Messages are
identified by object identity (``[program, index]``) or, for messages made by wrapper code, by
structure (``["foreign", command, obj, args, kwargs, run]``); exceptions by order of first observation,
type and args (the ``GeneratorExit`` family is normalised to one token, because ``close()`` and the
wrappers make their own instances and turn a thrown ``PlanHalt`` into ``close()`` of inner plans).
"""

from __future__ import annotations

import functools
import json
import re

from .core import use_repo

use_repo()

from bluesky.utils import (  # noqa: E402
    FailedStatus,
    Msg,
    PlanHalt,
    RequestAbort,
    RequestStop,
    RunEngineControlException,
)



def quiet_generator_finalizers():
    """Generators left suspended in a ``finally`` that yields complain when the GC finalises them
    ("Exception ignored in: <generator ...>").  That is noise, not an observation."""
    import sys

    prev = sys.unraisablehook

    def hook(u):
        if type(u.object).__name__ == "generator" or isinstance(u.exc_value, (RuntimeError, GeneratorExit)):
            return
        prev(u)

    if getattr(sys.unraisablehook, "__name__", "") != "hook":
        sys.unraisablehook = hook


quiet_generator_finalizers()

# --------------------------------------------------------------------------------------------
# exception vocabulary

EXC = {
    "ValueError": ValueError,
    "KeyError": KeyError,
    "LookupError": LookupError,
    "RuntimeError": RuntimeError,
    "TypeError": TypeError,
    "FailedStatus": FailedStatus,
    "Exception": Exception,
    "RequestStop": RequestStop,
    "RequestAbort": RequestAbort,
    "RunEngineControlException": RunEngineControlException,
    "PlanHalt": PlanHalt,
    "GeneratorExit": GeneratorExit,
    "BaseException": BaseException,
}
#: what a RunEngine throws into a plan: Exception instances (device errors), the control exceptions
THROWABLE_ERRORS = ["ValueError", "KeyError", "RuntimeError", "FailedStatus", "TypeError"]
THROWABLE_CONTROL = ["RequestStop", "RequestAbort"]
THROWABLE_HALT = ["PlanHalt"]
#: what a program may raise itself
RAISABLE = ["ValueError", "KeyError", "RuntimeError", "FailedStatus"]
#: what a program may name in an ``except`` clause
CATCHABLE = [
    "ValueError",
    "KeyError",
    "LookupError",
    "RuntimeError",
    "FailedStatus",
    "Exception",
    "RequestStop",
    "RequestAbort",
    "RunEngineControlException",
    "GeneratorExit",
    "BaseException",
]


def is_genexit_name(name):
    return issubclass(EXC[name], GeneratorExit)


def catches(handler_names, exc_name):
    return any(issubclass(EXC[exc_name], EXC[h]) for h in handler_names)


# --------------------------------------------------------------------------------------------
# environment: identity bookkeeping shared by the programs of one run and the driver

_UUID_RE = re.compile(r"[0-9a-f]{8}-[0-9a-f]{4}-[0-9a-f]{4}-[0-9a-f]{4}-[0-9a-f]{12}")


class Env:
    """Registries for one run: program contexts (message identity), exceptions (identity by order
    of first observation), named objects (devices), and value normalisation."""

    def __init__(self, objs=None):
        self.ctxs = {}
        self.excs = []
        self.objs = dict(objs or {})
        self.last = None  # (ctx name, path) of the most recent program-side yield
        self.last_obj = None  # the message object yielded there
        self.steps = 0  # number of driver actions applied so far (a clock for spies)
        self.tokens = {}
        self.token_patterns = [_UUID_RE]

    # -- programs
    def ctx(self, name):
        if name not in self.ctxs:
            self.ctxs[name] = ProgCtx(name, self)
        return self.ctxs[name]

    def instantiate(self, prog, name="p", orig=None):
        """Return a fresh generator *instance* of ``prog`` logging into ``self.ctx(name)``."""
        return compile_program(prog)(self.ctx(name), orig)

    def genfunc(self, prog, name="p"):
        """Return a zero-argument callable producing generator instances (all share one ctx)."""
        f = compile_program(prog)
        c = self.ctx(name)
        return lambda *a, **k: f(c)

    # -- identities
    def _token(self, s):
        def rep(m):
            t = m.group(0)
            if t not in self.tokens:
                self.tokens[t] = f"<tok{len(self.tokens)}>"
            return self.tokens[t]

        for pat in self.token_patterns:
            s = pat.sub(rep, s)
        return s

    def val(self, v, _d=0):
        """JSON-able, identity-free description of a response / argument value."""
        if v is None or isinstance(v, (bool, int, float)):
            return v
        if isinstance(v, str):
            return self._token(v)
        if _d > 6:
            return "<deep>"
        if isinstance(v, Msg):
            return {"msg": self.mid(v)}
        if isinstance(v, (list, tuple)):
            return [self.val(x, _d + 1) for x in v]
        if isinstance(v, (set, frozenset)):
            return {"set": sorted((self.val(x, _d + 1) for x in v), key=repr)}
        if isinstance(v, dict) or hasattr(v, "keys") and hasattr(v, "__getitem__"):
            return {str(k): self.val(v[k], _d + 1) for k in sorted(v.keys(), key=str)}
        if isinstance(v, BaseException):
            return {"exc": self.eid(v)}
        for k, o in self.objs.items():
            if o is v:
                return {"obj": k}
        n = getattr(v, "name", None)
        if isinstance(n, str):
            return {"named": n}
        if callable(v):
            return {"callable": getattr(v, "__name__", type(v).__name__)}
        return {"repr": self._token(repr(v))[:80]}

    def mid(self, msg):
        """Identity of a yielded object: [ctx, index] for program-made messages (matched with
        ``is``), otherwise a structural description tagged 'foreign'."""
        if not isinstance(msg, Msg):
            return ["nonmsg", repr(msg)[:80]]
        for c in self.ctxs.values():
            for i, m in enumerate(c.msgs):
                if m is msg:
                    return [c.name, i]
        return [
            "foreign",
            msg.command,
            self.val(msg.obj),
            self.val(list(msg.args)),
            self.val(dict(msg.kwargs)),
            self.val(msg.run),
        ]

    def eid(self, e):
        """Identity of an exception: GeneratorExit family is normalised (close() and wrappers make
        their own instances); others are numbered by order of first observation in this run."""
        if isinstance(e, GeneratorExit):
            return ["GeneratorExit*"]
        for i, x in enumerate(self.excs):
            if x is e:
                break
        else:
            self.excs.append(e)
            i = len(self.excs) - 1
        try:
            args = self.val(list(e.args))
        except Exception:
            args = "<args?>"
        return [i, type(e).__name__, args]


class ProgCtx:
    """What one program (all instances sharing the name) creates and sees."""

    def __init__(self, name, env):
        self.name = name
        self.env = env
        self.msgs = []
        self.log = []
        self.starts = 0
        self.pool = None

    # called from generated code ---------------------------------------------------------
    def mk(self, spec):
        obj = spec.get("obj")
        if obj is not None:
            obj = self.env.objs[obj]
        m = Msg(spec.get("cmd", "null"), obj, *spec.get("args", ()), run=spec.get("run"), **spec.get("kw", {}))
        self.msgs.append(m)
        return m

    def adopt(self, msg):
        """Register a message object made elsewhere (e.g. the original message handed to a head
        program by a processor) so it is identified by ``is`` too; returns its index."""
        for i, m in enumerate(self.msgs):
            if m is msg:
                return i
        self.msgs.append(msg)
        return len(self.msgs) - 1

    def begin(self):
        self.starts += 1
        self.log.append(["start", self.starts])

    def mark(self, m, path):
        self.env.last = (self.name, path)
        self.env.last_obj = m
        self.log.append(["yield", self.env.mid(m)])

    def recv(self, m, r):
        self.log.append(["recv", self.env.mid(m), self.env.val(r)])

    def saw(self, m, e):
        self.log.append(["exc_at", self.env.mid(m), self.env.eid(e)])

    def caught(self, nid, hidx, e):
        self.log.append(["caught", nid, hidx, self.env.eid(e)])

    def els(self, nid):
        self.log.append(["else", nid])

    def fin(self, nid):
        self.log.append(["finally", nid])

    def subret(self, nid, v):
        self.log.append(["subret", nid, self.env.val(v)])

    def end_raise(self, e):
        self.log.append(["end", "raise", self.env.eid(e)])

    def end_return(self, v):
        self.log.append(["end", "return", self.env.val(v)])

    def mkexc(self, name, arg):
        e = EXC[name](arg)
        self.log.append(["raise", self.env.eid(e)])
        return e


# --------------------------------------------------------------------------------------------
# compiler: program JSON -> python source -> generator function(ctx)


class _Emit:
    def __init__(self):
        self.lines = []
        self.nid = 0
        self.consts = []

    def const(self, v):
        self.consts.append(v)
        return f"K[{len(self.consts) - 1}]"

    def w(self, ind, s):
        self.lines.append("    " * ind + s)

    def node(self, n, ind, path):
        op = n["op"]
        nid = self.nid
        self.nid += 1
        if op in ("y", "yf", "ybr"):
            if "m" in n and n["m"] is not None:
                self.w(ind, f"_m = P[{int(n['m'])}]")
            else:
                self.w(ind, f"_m = c.mk({self.const(n['spec'])})")
            self.w(ind, f"c.mark(_m, {self.const(path)})")
            self.w(ind, "try:")
            self.w(ind + 1, "_r = yield _m")
            self.w(ind, "except BaseException as _e:")
            self.w(ind + 1, "c.saw(_m, _e)")
            self.w(ind + 1, "raise")
            self.w(ind, "c.recv(_m, _r)")
            if op == "ybr":
                self.w(ind, f"if _r == {self.const(n['eq'])}:")
                self.node(n["a"], ind + 1, path)
                self.w(ind, "else:")
                self.node(n["b"], ind + 1, path)
        elif op == "seq":
            if not n["body"]:
                self.w(ind, "pass")
            for ch in n["body"]:
                self.node(ch, ind, path)
        elif op == "sub":
            self.w(ind, f"def _s{nid}():")
            self.w(ind + 1, "if False:")
            self.w(ind + 2, "yield")
            self.node(n["body"], ind + 1, path + [{"k": "sub"}])
            self.w(ind, f"_v = yield from _s{nid}()")
            self.w(ind, f"c.subret({nid}, _v)")
        elif op == "try":
            handlers = n.get("handlers") or []
            fin = n.get("finally")
            els = n.get("else")
            if not handlers and fin is None:
                raise ValueError("try node needs a handler or a finally clause")
            if els is not None and not handlers:
                raise ValueError("try/else needs a handler")
            hnames = [list(h["exc"]) for h in handlers]
            self.w(ind, "try:")
            self.node(n["body"], ind + 1, path + [{"k": "body", "h": hnames, "f": fin is not None}])
            for hi, h in enumerate(handlers):
                names = ", ".join(f"X[{json.dumps(x)}]" for x in h["exc"])
                self.w(ind, f"except ({names},) as _e:")
                self.w(ind + 1, f"c.caught({nid}, {hi}, _e)")
                self.node(h["body"], ind + 1, path + [{"k": "handler", "f": fin is not None}])
                if h.get("reraise"):
                    self.w(ind + 1, "raise")
            if els is not None:
                self.w(ind, "else:")
                self.w(ind + 1, f"c.els({nid})")
                self.node(els, ind + 1, path + [{"k": "else", "f": fin is not None}])
            if fin is not None:
                self.w(ind, "finally:")
                self.w(ind + 1, f"c.fin({nid})")
                self.node(fin, ind + 1, path + [{"k": "finally"}])
        elif op == "raise":
            self.w(ind, f"raise c.mkexc({json.dumps(n['exc'])}, {self.const(n.get('arg', 'x'))})")
        elif op == "ret":
            self.w(ind, f"return {self.const(n.get('v'))}")
        elif op == "nop":
            self.w(ind, "pass")
        else:
            raise ValueError(f"unknown op {op!r}")


@functools.lru_cache(maxsize=4096)
def _compile_cached(prog_json):
    prog = json.loads(prog_json)
    em = _Emit()
    em.w(0, "def _body(c, P, K, X):")
    em.w(1, "if False:")
    em.w(2, "yield")
    em.node(prog["body"], 1, [])
    # thin outer layer: logs how the program ended (return / exception / GeneratorExit)
    em.w(0, "def _top(c, P, K, X):")
    em.w(1, "c.begin()")
    em.w(1, "try:")
    em.w(2, "_v = yield from _body(c, P, K, X)")
    em.w(1, "except BaseException as _e:")
    em.w(2, "c.end_raise(_e)")
    em.w(2, "raise")
    em.w(1, "c.end_return(_v)")
    em.w(1, "return _v")
    src = "\n".join(em.lines) + "\n"
    code = compile(src, "<plan-program>", "exec")
    return code, em.consts, prog.get("pool", []), src


def compile_program(prog):
    """Return ``f(ctx) -> generator instance``.  The pool messages are created once per ctx (so the
    same pool object is yielded by every instance sharing the ctx)."""
    code, consts, pool, _src = _compile_cached(json.dumps(prog, sort_keys=True))

    def make(ctx, orig=None):
        ns = {}
        exec(code, ns)  # noqa: S102 - our own generated source
        if ctx.pool is None:
            # a pool spec {"orig": true} stands for a message object handed in from outside (the
            # original message given to a head/tail program by a processor); it is not re-registered
            ctx.pool = [orig if s.get("orig") else ctx.mk(s) for s in pool]
        return ns["_top"](ctx, ctx.pool, consts, EXC)

    return make


def program_source(prog):
    return _compile_cached(json.dumps(prog, sort_keys=True))[3]


def count_nodes(n):
    op = n["op"]
    t = 1
    if op == "ybr":
        t += count_nodes(n["a"]) + count_nodes(n["b"])
    elif op == "seq":
        t += sum(count_nodes(c) for c in n["body"])
    elif op == "sub":
        t += count_nodes(n["body"])
    elif op == "try":
        t += count_nodes(n["body"])
        for h in n.get("handlers") or []:
            t += count_nodes(h["body"])
        for k in ("else", "finally"):
            if n.get(k) is not None:
                t += count_nodes(n[k])
    return t


def pool_indices_used(n, acc=None):
    """Pool indices named by yield nodes of a program body."""
    acc = set() if acc is None else acc
    op = n["op"]
    if op in ("y", "ybr") and n.get("m") is not None:
        acc.add(int(n["m"]))
    if op == "ybr":
        pool_indices_used(n["a"], acc)
        pool_indices_used(n["b"], acc)
    elif op == "seq":
        for c in n["body"]:
            pool_indices_used(c, acc)
    elif op == "sub":
        pool_indices_used(n["body"], acc)
    elif op == "try":
        pool_indices_used(n["body"], acc)
        for h in n.get("handlers") or []:
            pool_indices_used(h["body"], acc)
        for k in ("else", "finally"):
            if n.get(k) is not None:
                pool_indices_used(n[k], acc)
    return acc


def count_yields(n):
    op = n["op"]
    t = 1 if op in ("y", "yf", "ybr") else 0
    if op == "ybr":
        t += count_yields(n["a"]) + count_yields(n["b"])
    elif op == "seq":
        t += sum(count_yields(c) for c in n["body"])
    elif op == "sub":
        t += count_yields(n["body"])
    elif op == "try":
        t += count_yields(n["body"])
        for h in n.get("handlers") or []:
            t += count_yields(h["body"])
        for k in ("else", "finally"):
            if n.get(k) is not None:
                t += count_yields(n[k])
    return t


# --------------------------------------------------------------------------------------------
# driver


class Driver:
    """Apply actions to a generator and record ``[action, outcome]`` pairs.

    Outcomes: ``["yield", mid]``, ``["return", value]``, ``["raise", eid]``, ``["closed"]``,
    ``["runaway"]``.  After a terminal outcome ``done`` is true.
    """

    def __init__(self, gen, env, cap=300):
        self.gen = gen
        self.env = env
        self.cap = cap
        self.trace = []
        self.done = False
        self.started = False
        self.where = []  # env.last at the time each action was applied (None before the start)
        self.last_msg = None
        self.logs = None  # per-program logs, frozen when the script ended (before hygiene)
        self.final_exc = None
        self.final_exc_known = None
        self.cur_where = None  # None until started
        self.thrown_classes = set()
        self.yielded = []  # per trace entry: the yielded object (or None)
        self.sent = []  # per trace entry: the value actually sent (or None)
        self.responder = None  # callable(msg) -> value, used for ["send", "auto"]

    def apply(self, action):
        if self.done:
            raise RuntimeError("driver: generator already finished")
        env = self.env
        kind = action[0]
        sent = action[1] if kind == "send" else None
        env.steps += 1
        self.where.append(self.cur_where)
        if len(self.trace) >= self.cap:
            self.done = True
            out = ["runaway"]
            self.trace.append([list(action), out])
            self.yielded.append(None)
            self.sent.append(None)
            return out
        try:
            if kind == "send":
                v = action[1] if self.started else None
                if v == "auto":
                    v = self.responder(self.last_msg) if self.responder is not None else None
                    sent = v
                    action = ["send", env.val(v)]
                self.started = True
                m = self.gen.send(v)
            elif kind == "throw":
                _, name, arg, as_class = (list(action) + [None, False])[:4]
                if as_class:
                    exc = EXC[name]
                    self.thrown_classes.add(exc)
                else:
                    exc = EXC[name](arg)
                    env.eid(exc)
                self.started = True
                m = self.gen.throw(exc)
            elif kind == "close":
                self.started = True
                self.gen.close()
                self.done = True
                out = ["closed"]
                self.trace.append([list(action), out])
                self.yielded.append(None)
                self.sent.append(None)
                return out
            else:
                raise ValueError(f"unknown action {action!r}")
        except StopIteration as s:
            self.done = True
            out = ["return", env.val(s.value)]
        except (KeyboardInterrupt, SystemExit):
            raise
        except BaseException as e:  # noqa: BLE001 - the outcome *is* the exception
            self.done = True
            # was this exception object made by the driver / a program (or seen by a program) before?
            self.final_exc = e
            self.final_exc_known = (
                isinstance(e, GeneratorExit) or any(x is e for x in env.excs) or type(e) in self.thrown_classes
            )
            out = ["raise", env.eid(e)]
        else:
            self.last_msg = m
            out = ["yield", env.mid(m)]
            # where is the driven stack suspended?  at a program's yield if the message just seen
            # is the one that program marked; otherwise at a yield of wrapper code
            if env.last is not None and m is env.last_obj:
                self.cur_where = env.last
            else:
                self.cur_where = ("<wrapper>", [])
        self.trace.append([list(action), out])
        self.yielded.append(self.last_msg if out[0] == "yield" else None)
        self.sent.append(sent)
        return out

    def run(self, script, responder=None):
        """Apply the script, then keep answering (``responder(msg) -> action`` or send None)."""
        for a in script:
            if self.done:
                break
            self.apply(a)
        while not self.done:
            if responder is not None:
                a = responder(self.last_msg)
            else:
                a = ["send", "auto"] if self.responder is not None else ["send", None]
            self.apply(a)
        self.freeze()
        self.finish()
        return self.trace

    def freeze(self):
        self.logs = {n: list(c.log) for n, c in self.env.ctxs.items()}

    def finish(self):
        """Hygiene: make sure nothing stays suspended (not part of the observation)."""
        try:
            self.gen.close()
        except BaseException:  # noqa: BLE001
            pass


def run_generator(make, script, objs=None, cap=300):
    """``make(env) -> generator``; returns ``(env, driver)`` after running the whole script."""
    env = Env(objs)
    gen = make(env)
    d = Driver(gen, env, cap=cap)
    d.run(script)
    return env, d


def observation(env, d, ctx_names=None):
    """Comparable observation of a run: driver trace + per-program logs."""
    if d.logs is None:
        d.freeze()
    names = sorted(d.logs) if ctx_names is None else ctx_names
    return {"trace": d.trace, "logs": {n: d.logs[n] for n in names if n in d.logs}}


def first_diff(a, b, path=""):
    """Human-readable location of the first difference between two JSON-like values."""
    if type(a) is not type(b):
        return f"{path}: {a!r} != {b!r}"
    if isinstance(a, dict):
        for k in sorted(set(a) | set(b)):
            if k not in a or k not in b:
                return f"{path}.{k}: present in only one side ({a.get(k)!r} vs {b.get(k)!r})"
            d = first_diff(a[k], b[k], f"{path}.{k}")
            if d:
                return d
        return None
    if isinstance(a, list):
        for i, (x, y) in enumerate(zip(a, b)):
            d = first_diff(x, y, f"{path}[{i}]")
            if d:
                return d
        if len(a) != len(b):
            longer = a if len(a) > len(b) else b
            side = "left" if len(a) > len(b) else "right"
            return f"{path}: length {len(a)} != {len(b)}; extra on {side}: {longer[min(len(a), len(b))]!r}"
        return None
    return None if a == b else f"{path}: {a!r} != {b!r}"


# --------------------------------------------------------------------------------------------
# position classes


def pos_label(where):
    """Class of a position (``env.last`` at the time of an action): innermost clause kind."""
    if where is None:
        return "unstarted"
    name, path = where
    kinds = [f["k"] for f in path if f["k"] != "sub"]
    inner = kinds[-1] if kinds else "plain"
    return inner


def pos_guarded(where):
    """True when a throw / close at this position meets Python exception machinery of the program:
    the yield lies in a try body, a handler, an else clause with a finally, or a finally clause."""
    if where is None:
        return False
    return any(f["k"] in ("body", "handler", "finally") or (f["k"] == "else" and f.get("f")) for f in where[1])


def enclosing_handler_names(where):
    """Exception names caught by handlers whose try *body* encloses the position (innermost first)."""
    out = []
    if where is None:
        return out
    path = where[1]
    # only frames after the last non-body clause matter for catching: a yield in a handler/else/
    # finally clause of try T is not protected by T's own handlers, but by the enclosing bodies.
    for f in reversed(path):
        if f["k"] == "body":
            for names in f.get("h", []):
                out.extend(names)
    return out


def misbehaved_on_genexit(logs):
    """Names of programs that yielded or raised something after a GeneratorExit arrived at one of
    their yields (what Python / the wrappers do then is outside every statement here)."""
    bad = []
    for name, log in logs.items():
        hit = False
        for e in log:
            if e[0] == "exc_at" and e[2] == ["GeneratorExit*"]:
                hit = True
            elif hit and (e[0] in ("yield", "raise") or (e[0] == "end" and e[1] == "raise" and e[2] != ["GeneratorExit*"])):
                bad.append(name)
                break
    return bad


def script_classes(script, wheres):
    """Histogram labels for a script given the positions its actions landed on."""
    labs = []
    for a, w in zip(script, wheres):
        if a[0] == "send":
            continue
        kind = a[0]
        if kind == "throw":
            kind = "halt" if is_genexit_name(a[1]) else ("ctl" if a[1] in THROWABLE_CONTROL else "throw")
        labs.append(f"{kind}@{pos_label(w)}")
    return labs


# --------------------------------------------------------------------------------------------
# Hypothesis strategies (constructive)


def draw_msgspec(draw, st, cmds=("m",), objs=(None,), tag=0):
    cmd = draw(st.sampled_from(list(cmds)))
    obj = draw(st.sampled_from(list(objs)))
    spec = {"cmd": cmd, "obj": obj, "args": [tag]}
    return spec


def draw_program(
    draw,
    st,
    *,
    budget=8,
    pool_specs=None,
    cmds=("m",),
    objs=(None,),
    allow_ret=True,
    allow_raise=True,
    catch_genexit=True,
    resp_values=(0, 1, None),
    try_weight=5,
    fresh_spec=None,
):
    """Draw ``{"pool": [...], "body": node}`` with at most ``budget`` nodes.  ``try`` nodes are
    frequent and get yields in (nearly) every clause."""
    if pool_specs is None:
        npool = draw(st.integers(1, 3))
        pool_specs = [{"cmd": cmds[i % len(cmds)], "obj": objs[i % len(objs)], "args": [f"p{i}"]} for i in range(npool)]
    npool = len(pool_specs)
    fresh = [0]
    catchable = [c for c in CATCHABLE if catch_genexit or c not in ("GeneratorExit", "BaseException")]

    def leaf_yield():
        if npool and draw(st.integers(0, 3)) != 0:
            return {"op": "y", "m": draw(st.integers(0, npool - 1))}
        fresh[0] += 1
        if fresh_spec is not None:
            return {"op": "yf", "spec": fresh_spec(draw, fresh[0])}
        spec = {
            "cmd": draw(st.sampled_from(list(cmds))),
            "obj": draw(st.sampled_from(list(objs))),
            "args": [f"f{fresh[0]}"],
        }
        return {"op": "yf", "spec": spec}

    def leaf(force_yield=False):
        r = 0 if force_yield else draw(st.integers(0, 11))
        if r <= 7:
            return leaf_yield()
        if r == 8 and allow_raise:
            return {"op": "raise", "exc": draw(st.sampled_from(RAISABLE)), "arg": f"r{draw(st.integers(0, 2))}"}
        if r == 9 and allow_ret:
            return {"op": "ret", "v": draw(st.sampled_from([7, "rv", None, [1, 2]]))}
        if r == 10:
            return {"op": "nop"}
        return leaf_yield()

    def node(b, force_yield=False):
        if b <= 1:
            return leaf(force_yield)
        kinds = ["try"] * try_weight + ["seq"] * 3 + ["sub", "ybr", "leaf"]
        k = draw(st.sampled_from(kinds))
        if k == "leaf":
            return leaf(force_yield)
        if k == "seq":
            n = draw(st.integers(2, min(3, b)))
            share = max(1, (b - 1) // n)
            return {"op": "seq", "body": [node(share, force_yield and i == 0) for i in range(n)]}
        if k == "sub":
            return {"op": "sub", "body": node(b - 1, True)}
        if k == "ybr":
            y = leaf_yield()
            share = max(1, (b - 1) // 2)
            out = {"op": "ybr", "eq": draw(st.sampled_from(list(resp_values))), "a": node(share), "b": node(share)}
            if y["op"] == "y":
                out["m"] = y["m"]
            else:
                out["spec"] = y["spec"]
            return out
        # try
        nh = draw(st.sampled_from([0, 1, 1, 1, 2]))
        has_fin = draw(st.booleans()) or nh == 0
        has_else = nh > 0 and draw(st.integers(0, 2)) == 0
        parts = 1 + nh + int(has_fin) + int(has_else)
        share = max(1, (b - 1) // parts)
        t = {"op": "try", "body": node(share, True), "handlers": [], "else": None, "finally": None}
        for _ in range(nh):
            names = [draw(st.sampled_from(catchable))]
            if draw(st.integers(0, 4)) == 0:
                names.append(draw(st.sampled_from(catchable)))
            t["handlers"].append(
                {"exc": names, "body": node(share, draw(st.integers(0, 3)) != 0), "reraise": draw(st.integers(0, 3)) == 0}
            )
        if has_else:
            t["else"] = node(share, True)
        if has_fin:
            t["finally"] = node(share, draw(st.integers(0, 3)) != 0)
        return t

    body = node(budget, True)
    if allow_ret and draw(st.booleans()):
        # an explicit return value at the end, so that "return value preserved" is exercised often
        body = {"op": "seq", "body": [body, {"op": "ret", "v": draw(st.sampled_from([7, "rv", 0, [1, 2]]))}]}
    return {"pool": pool_specs, "body": body}


def draw_action(draw, st, where, *, resp_values=(0, 1, None), allow_close=True, allow_halt=True, p_event=None):
    """Draw one action for a generator suspended at ``where`` (None = not started).  Throws/closes
    are much more likely at guarded positions, and thrown types are aimed at enclosing handlers."""
    if where is None:
        r = draw(st.integers(0, 39))
        if r == 38 and allow_close:
            return ["close"]
        if r == 39:
            return ["throw", draw(st.sampled_from(THROWABLE_ERRORS)), "e0", False]
        return ["send", None]
    guarded = pos_guarded(where)
    if p_event is None:
        p_event = 45 if guarded else 12
    r = draw(st.integers(0, 99))
    if r >= p_event:
        return ["send", draw(st.sampled_from(list(resp_values)))]
    # an event: throw error / control / halt / close
    e = draw(st.integers(0, 19))
    if e in (12, 13) and allow_close:
        return ["close"]
    if e == 14 and allow_halt:
        return ["throw", "PlanHalt", "halt", draw(st.booleans())]
    if e >= 15:
        return ["throw", draw(st.sampled_from(THROWABLE_CONTROL)), "ctl", draw(st.integers(0, 3)) == 0]
    names = [n for n in enclosing_handler_names(where) if n in THROWABLE_ERRORS]
    # aim at a handler: throw a type some enclosing handler names exactly, or a subclass of it
    aimed = list(names)
    for h in enclosing_handler_names(where):
        aimed += [t for t in THROWABLE_ERRORS if catches([h], t) and h not in ("Exception", "BaseException")]
    if aimed and draw(st.integers(0, 2)) != 0:
        name = draw(st.sampled_from(sorted(set(aimed))))
    else:
        name = draw(st.sampled_from(THROWABLE_ERRORS))
    return ["throw", name, f"e{draw(st.integers(0, 2))}", draw(st.integers(0, 5)) == 0]


def draw_script(draw, st, make, *, objs=None, max_len=10, responder=None, **kw):
    """Build a script against the generator ``make(env)``: the generator is stepped while actions
    are drawn.  Normally ``make`` builds a *reference*; where no reference exists the wrapped code
    itself may be stepped (the driver turns anything it does into an outcome, and the finished
    script is stored in the case, so replays do not depend on this step)."""
    env = Env(objs)
    gen = make(env)
    d = Driver(gen, env, cap=200)
    if responder is not None:
        d.responder = responder(env)
    script = []
    while not d.done and len(script) < max_len:
        a = draw_action(draw, st, d.cur_where, **kw)
        script.append(a)
        d.apply(a)
    d.finish()
    return script


# --------------------------------------------------------------------------------------------
# bounded enumeration (small alphabet) for exhaustive sweeps


def enumerate_bodies(max_nodes, *, pool=2, excs=("ValueError",), rets=(7,), with_else=True):
    """All program bodies with at most ``max_nodes`` nodes over a small alphabet (memoised by size)."""
    memo = {}

    def of_size(n):
        if n in memo:
            return memo[n]
        out = []
        if n == 1:
            for k in range(pool):
                out.append({"op": "y", "m": k})
            out.append({"op": "yf", "spec": {"cmd": "m", "obj": None, "args": ["f"]}})
            for e in excs:
                out.append({"op": "raise", "exc": e, "arg": "r"})
            for v in rets:
                out.append({"op": "ret", "v": v})
        else:
            # seq of two parts (sizes a + b = n - 1)
            for a in range(1, n - 1):
                for x in of_size(a):
                    if x["op"] == "seq":
                        continue
                    for y in of_size(n - 1 - a):
                        out.append({"op": "seq", "body": [x, y]})
            for x in of_size(n - 1):
                out.append({"op": "sub", "body": x})
                # try/finally with empty-ish finally is size n: try(body) finally(nop) not useful; need >= 2 parts
            # try with (body, finally) / (body, handler) / (body, handler, finally) / (body, handler, else)
            for a in range(1, n - 1):
                for x in of_size(a):
                    for y in of_size(n - 1 - a):
                        out.append({"op": "try", "body": x, "handlers": [], "else": None, "finally": y})
                        for e in excs + ("GeneratorExit", "Exception"):
                            for rr in (False, True):
                                out.append(
                                    {"op": "try", "body": x, "handlers": [{"exc": [e], "body": y, "reraise": rr}], "else": None, "finally": None}
                                )
            for a in range(1, n - 2):
                for b in range(1, n - 1 - a):
                    c = n - 1 - a - b
                    if c < 1:
                        continue
                    for x in of_size(a):
                        for y in of_size(b):
                            for z in of_size(c):
                                for e in excs + ("Exception",):
                                    out.append(
                                        {"op": "try", "body": x, "handlers": [{"exc": [e], "body": y, "reraise": False}], "else": None, "finally": z}
                                    )
                                    if with_else:
                                        out.append(
                                            {"op": "try", "body": x, "handlers": [{"exc": [e], "body": y, "reraise": False}], "else": z, "finally": None}
                                        )
        memo[n] = out
        return out

    res = []
    for n in range(1, max_nodes + 1):
        res.extend(of_size(n))
    return res


def enumerate_scripts(max_len, alphabet):
    """All scripts ``[send None] + w`` for words ``w`` over ``alphabet`` with ``len(w) <= max_len``
    in which nothing follows a close (the prime action is fixed)."""
    out = [[["send", None]]]
    frontier = [[["send", None]]]
    for _ in range(max_len):
        nxt = []
        for s in frontier:
            if s[-1][0] == "close":
                continue
            for a in alphabet:
                nxt.append(s + [list(a)])
        out.extend(nxt)
        frontier = nxt
    return out
