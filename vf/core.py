"""Shared runner machinery: case bookkeeping, known findings, evidence, replay files, sharding.

Every property module in ``vf.props`` exposes

    ID            "C26"
    RULE          text: how cases are generated and what makes one non-trivial / distinct
    ASSUMPTIONS   list of str
    LEVEL_TEXT, LEVEL_NOTE, TECHNIQUE, DESIGN_REF   (used to generate MANIFEST.json)
    run(ctx)      explore; calls ctx.sweep(...) / ctx.hyp(...) / ctx.record(...)
    replay(case)  -> Result      re-executes one stored case without Hypothesis

A *case* is a JSON-serialisable value.  ``check_case(case) -> Result`` is a pure function of the
case and of the code under test.
"""

from __future__ import annotations

import hashlib
import json
import multiprocessing
import os
import sys
import time
import traceback
from collections import Counter
from dataclasses import dataclass, field

VERIF = os.path.dirname(os.path.dirname(os.path.abspath(__file__)))
REPO_SRC = os.environ.get("VERIF_REPO", "/repo/src")


def use_repo():
    """Make ``import bluesky`` resolve to the working tree under test (default /repo/src)."""
    if not sys.path or sys.path[0] != REPO_SRC:
        sys.path.insert(0, REPO_SRC)


# ------------------------------------------------------------------------------------------
# JSON helpers


def jsonable(x, _depth=0):
    """Best-effort conversion to something ``json.dumps`` accepts (used for cases and samples)."""
    if _depth > 40:
        return repr(x)
    if x is None or isinstance(x, (bool, int, str)):
        return x
    if isinstance(x, float):
        if x != x:
            return {"__float__": "nan"}
        if x in (float("inf"), float("-inf")):
            return {"__float__": "inf" if x > 0 else "-inf"}
        return x
    if isinstance(x, bytes):
        return {"__bytes__": x.hex()}
    if isinstance(x, dict):
        return {str(k): jsonable(v, _depth + 1) for k, v in x.items()}
    if isinstance(x, (list, tuple)):
        return [jsonable(v, _depth + 1) for v in x]
    if isinstance(x, (set, frozenset)):
        return sorted((jsonable(v, _depth + 1) for v in x), key=repr)
    try:
        import numpy as np

        if isinstance(x, np.generic):
            return {"__np__": str(x.dtype), "v": jsonable(x.item(), _depth + 1)}
        if isinstance(x, np.ndarray):
            return {"__nd__": str(x.dtype), "shape": list(x.shape), "v": jsonable(x.tolist(), _depth + 1)}
    except Exception:
        pass
    if isinstance(x, BaseException):
        return {"__exc__": type(x).__name__, "args": jsonable(list(x.args), _depth + 1)}
    return repr(x)


def unjson(x):
    """Inverse of :func:`jsonable` for the tagged scalar forms (floats, bytes, numpy)."""
    if isinstance(x, dict):
        if "__float__" in x and len(x) == 1:
            return float(x["__float__"])
        if "__bytes__" in x and len(x) == 1:
            return bytes.fromhex(x["__bytes__"])
        if "__np__" in x:
            import numpy as np

            return np.dtype(x["__np__"]).type(unjson(x["v"]))
        if "__nd__" in x:
            import numpy as np

            return np.array(unjson(x["v"]), dtype=x["__nd__"]).reshape(x["shape"])
        return {k: unjson(v) for k, v in x.items()}
    if isinstance(x, list):
        return [unjson(v) for v in x]
    return x


def canon(case) -> str:
    return json.dumps(jsonable(case), sort_keys=True, separators=(",", ":"), default=repr)


def case_hash(case) -> str:
    return hashlib.sha1(canon(case).encode()).hexdigest()[:16]


# ------------------------------------------------------------------------------------------
# Results


@dataclass
class Failure:
    kind: str  # short machine-readable failure kind, e.g. "resume_raises"
    detail: str  # human-readable: expectation vs observation
    features: dict = field(default_factory=dict)  # case features computed independently of the outcome

    def to_json(self):
        return {"kind": self.kind, "detail": self.detail, "features": jsonable(self.features)}


@dataclass
class Result:
    nontrivial: bool = False
    klass: str | None = None  # class label for the histogram
    failures: list = field(default_factory=list)
    obs: object = None  # optional compact observation, stored in samples / replay files
    classes: list = field(default_factory=list)  # additional histogram labels

    def fail(self, kind, detail, **features):
        self.failures.append(Failure(kind, str(detail)[:2000], features))
        return self


class HarnessError(Exception):
    """Infrastructure problem: the check is inconclusive (exit 2), never a violation."""


# ------------------------------------------------------------------------------------------
# Known findings


class KnownFindings:
    def __init__(self, pid):
        self.pid = pid
        path = os.path.join(VERIF, "known_findings.json")
        self.findings = []
        self.fixed = []
        if os.path.exists(path):
            data = json.load(open(path))
            for e in data.get("findings", []):
                if pid in e.get("properties", []):
                    self.findings.append(e)
            for e in data.get("fixed", []):
                if pid in e.get("properties", [e.get("property")]):
                    self.fixed.append(e)

    def match(self, failure: Failure):
        """Return the id of the listed finding this failure belongs to, or None.

        A finding matches when the failure kind is one of its ``kinds`` and every key of its
        ``features`` has the same value in the failure's (outcome-independent) case features.
        """
        for e in self.findings:
            m = e.get("match", {})
            kinds = m.get("kinds", [])
            if kinds and failure.kind not in kinds:
                continue
            feats = m.get("features", {})
            ok = True
            for k, v in feats.items():
                fv = failure.features.get(k, None)
                if isinstance(v, dict) and "in" in v:
                    if fv not in v["in"]:
                        ok = False
                        break
                elif fv != v:
                    ok = False
                    break
            if ok:
                return e["id"]
        return None


# ------------------------------------------------------------------------------------------
# Collector


class Collector:
    MAX_SAMPLES = 8

    def __init__(self, pid):
        self.pid = pid
        self.evaluations = 0
        self.nontrivial_hashes = set()
        self.classes = Counter()
        self.samples = {}  # class -> sample
        self.excluded_known = Counter()
        self.violations = []  # [(case, [failure json])]
        self.notes = Counter()
        self.buckets = {}  # (kind, features...) -> [count, example case, detail]   (triage aid)
        self._known = KnownFindings(pid)

    def record(self, case, res: Result):
        """Book-keep one executed case; returns the failures not covered by a listed finding."""
        self.evaluations += 1
        labels = list(res.classes)
        if res.klass is not None:
            labels.append(res.klass)
        for lab in labels:
            self.classes[lab] += 1
        if res.nontrivial:
            self.nontrivial_hashes.add(case_hash(case))
        key = (res.klass or "-", bool(res.nontrivial))
        if key not in self.samples and len(self.samples) < 40:
            self.samples[key] = {"case": jsonable(case), "class": res.klass, "nontrivial": bool(res.nontrivial)}
            if res.obs is not None:
                self.samples[key]["observed"] = jsonable(res.obs)
        unknown = []
        for f in res.failures:
            bk = (f.kind,) + tuple(sorted((k, repr(v)) for k, v in f.features.items()))
            b = self.buckets.setdefault(bk, [0, jsonable(case), f.detail])
            b[0] += 1
            fid = self._known.match(f)
            if fid is None:
                unknown.append(f)
            else:
                self.excluded_known[fid] += 1
        if unknown and len(self.violations) < 5:
            self.violations.append((jsonable(case), [f.to_json() for f in unknown]))
        return unknown

    def merge(self, other: "Collector"):
        self.evaluations += other.evaluations
        self.nontrivial_hashes |= other.nontrivial_hashes
        self.classes.update(other.classes)
        for k, v in other.samples.items():
            self.samples.setdefault(k, v)
        self.excluded_known.update(other.excluded_known)
        self.notes.update(other.notes)
        for k, v in other.buckets.items():
            if k in self.buckets:
                self.buckets[k][0] += v[0]
            else:
                self.buckets[k] = v
        for v in other.violations:
            if len(self.violations) < 5:
                self.violations.append(v)

    def pick_samples(self):
        items = sorted(self.samples.items(), key=lambda kv: (not kv[0][1], kv[0][0]))
        return [v for _, v in items[: self.MAX_SAMPLES]]


# ------------------------------------------------------------------------------------------
# Parallel helpers (fork-based; the callable is inherited, not pickled)

_WORK = {}


def _sweep_worker(args):
    idx, chunk = args
    fn = _WORK["fn"]
    pid = _WORK["pid"]
    col = Collector(pid)
    try:
        for case in chunk:
            res = fn(case)
            col.record(case, res)
    except HarnessError as e:
        return ("harness", idx, "".join(traceback.format_exception(e)))
    except BaseException as e:  # a crash of the check itself is a harness error
        return ("harness", idx, "".join(traceback.format_exception(e)))
    return ("ok", idx, col)


def _hyp_worker(args):
    shard, n_examples, seed = args
    pid = _WORK["pid"]
    col = Collector(pid)
    try:
        failing = _run_hypothesis(_WORK["strategy"], _WORK["fn"], col, n_examples, seed, _WORK["shrink"])
    except HarnessError as e:
        return ("harness", shard, "".join(traceback.format_exception(e)), None)
    except BaseException as e:
        return ("harness", shard, "".join(traceback.format_exception(e)), None)
    return ("ok", shard, col, failing)


class _PropertyFailure(AssertionError):
    pass


def _run_hypothesis(strategy_factory, fn, col, n_examples, seed, shrink=True):
    """One shard of a Hypothesis search.  Returns the (shrunk) failing case or None.

    If Hypothesis reports the property function as flaky (the verdict on one input changed between executions --
    the checks are pure functions of the code under test, so the code itself behaved differently from call to call:
    leaked state, dependence on object identity or collection order), the observed failure is reported when it can
    be observed again; otherwise the shard searches on with a fresh derived seed (at most three more times) and the
    run is inconclusive (harness error, exit 2) only if that never yields a stable verdict."""
    last_err = None
    for attempt in range(4):
        try:
            return _run_hypothesis_once(strategy_factory, fn, col, n_examples, seed if attempt == 0 else mix_seed(seed, f"retry{attempt}"), shrink)
        except HarnessError as e:
            if not str(e).startswith("flaky property function"):
                raise
            last_err = e
            col.notes["flaky_verdicts_retried"] = col.notes.get("flaky_verdicts_retried", 0) + 1
            col.violations = []
    raise last_err


def _run_hypothesis_once(strategy_factory, fn, col, n_examples, seed, shrink=True):
    import hypothesis
    from hypothesis import HealthCheck, Phase, given, settings

    strategy = strategy_factory() if callable(strategy_factory) and not hasattr(strategy_factory, "example") else strategy_factory
    last_fail = {}
    phases = [Phase.generate, Phase.shrink] if shrink else [Phase.generate]

    @hypothesis.seed(seed)
    @settings(
        max_examples=n_examples,
        database=None,
        deadline=None,
        derandomize=False,
        report_multiple_bugs=False,
        suppress_health_check=list(HealthCheck),
        phases=phases,
        print_blob=False,
    )
    @given(strategy)
    def prop(case):
        res = fn(case)
        unknown = col.record(case, res)
        if unknown:
            last_fail["raw"] = case
            last_fail["case"] = jsonable(case)
            last_fail["failures"] = [f.to_json() for f in unknown]
            raise _PropertyFailure(unknown[0].kind)

    try:
        prop()
    except _PropertyFailure:
        # hypothesis re-runs the minimal failing example last, so last_fail holds the shrunk case
        col.violations = [(last_fail["case"], last_fail["failures"])]
        return last_fail
    except hypothesis.errors.Flaky as e:
        if "raw" in last_fail:
            scratch = Collector(col.pid)
            again = 0
            for _ in range(5):
                if scratch.record(last_fail["raw"], fn(last_fail["raw"])):
                    again += 1
            if again:
                for f in last_fail["failures"]:
                    f["detail"] = f"{f.get('detail', '')} [verdict not stable across executions: observed again in {again} of 5 re-executions]"
                col.violations = [(last_fail["case"], last_fail["failures"])]
                return last_fail
        raise HarnessError(f"flaky property function: {e}")
    return None


def mix_seed(seed, shard):
    h = hashlib.sha256(f"{seed}:{shard}".encode()).digest()
    return int.from_bytes(h[:6], "big")


class Ctx:
    def __init__(self, pid, tier, seed):
        self.pid = pid
        self.tier = tier
        self.seed = seed
        self.col = Collector(pid)
        self.exhaustive = None
        self.bound = None
        self.extra = {}
        self.procs = int(os.environ.get("VERIF_PROCS", "16"))
        self.t0 = time.time()
        self.harness_errors = []

    @property
    def quick(self):
        return self.tier == "quick"

    def pick(self, quick, thorough):
        return quick if self.tier == "quick" else thorough

    def record(self, case, res):
        return self.col.record(case, res)

    def sweep(self, cases, fn, procs=None, timeout=3600):
        """Run fn over an explicit list of cases in parallel worker processes."""
        cases = list(cases)
        if not cases:
            return
        procs = min(procs or self.procs, max(1, len(cases)))
        if procs == 1:
            for c in cases:
                self.col.record(c, fn(c))
            return
        _WORK.update(fn=fn, pid=self.pid)
        nchunks = min(len(cases), procs * 4)
        chunks = [(i, cases[i::nchunks]) for i in range(nchunks)]
        mpctx = multiprocessing.get_context("fork")
        with mpctx.Pool(procs) as pool:
            r = pool.map_async(_sweep_worker, chunks)
            try:
                outs = r.get(timeout=timeout)
            except multiprocessing.TimeoutError:
                pool.terminate()
                raise HarnessError(f"sweep timed out after {timeout}s (inconclusive)")
        for out in sorted(outs, key=lambda o: o[1]):
            if out[0] == "harness":
                raise HarnessError(out[2])
            self.col.merge(out[2])

    def hyp(self, strategy_factory, fn, max_examples, shards=None, shrink=True, timeout=3600, tag=""):
        """Run a Hypothesis search of ``max_examples`` cases split over worker processes."""
        shards = shards or self.procs
        shards = max(1, min(shards, max_examples // 20 or 1))
        per = max(1, max_examples // shards)
        _WORK.update(fn=fn, pid=self.pid, strategy=strategy_factory, shrink=shrink)
        jobs = [(i, per, mix_seed(f"{self.seed}:{tag}", i)) for i in range(shards)]
        if shards == 1:
            outs = [_hyp_worker(jobs[0])]
        else:
            mpctx = multiprocessing.get_context("fork")
            with mpctx.Pool(shards) as pool:
                r = pool.map_async(_hyp_worker, jobs)
                try:
                    outs = r.get(timeout=timeout)
                except multiprocessing.TimeoutError:
                    pool.terminate()
                    raise HarnessError(f"hypothesis shards timed out after {timeout}s (inconclusive)")
        for out in sorted(outs, key=lambda o: o[1]):
            if out[0] == "harness":
                raise HarnessError(out[2])
            self.col.merge(out[2])


# ------------------------------------------------------------------------------------------
# Evidence and replay files


def write_evidence(ctx: Ctx, mod, violations_n):
    col = ctx.col
    cov = {
        "evaluations": col.evaluations,
        "distinct_nontrivial": len(col.nontrivial_hashes),
        "rule": mod.RULE,
        "samples": col.pick_samples(),
        "classes": dict(sorted(col.classes.items())),
        "excluded_known": dict(col.excluded_known),
    }
    if ctx.exhaustive is not None:
        cov["exhaustive"] = bool(ctx.exhaustive)
        if ctx.bound:
            cov["bound"] = ctx.bound
    if col.notes:
        cov["notes"] = dict(col.notes)
    cov.update(ctx.extra)
    ev = {
        "property_id": ctx.pid,
        "tier": ctx.tier,
        "seed": ctx.seed,
        "level": getattr(mod, "LEVEL", "exploration"),
        "coverage": cov,
        "assumptions": list(getattr(mod, "ASSUMPTIONS", [])),
        "wall_s": round(time.time() - ctx.t0, 2),
        "violations": violations_n,
    }
    os.makedirs(os.path.join(VERIF, "evidence"), exist_ok=True)
    path = os.path.join(VERIF, "evidence", f"{ctx.pid}.json")
    tmp = path + ".tmp"
    with open(tmp, "w") as f:
        json.dump(ev, f, indent=1, sort_keys=False, default=repr)
    os.replace(tmp, path)
    return path


def write_failure(pid, case, failures, seed, tier):
    d = os.path.join(VERIF, "failures", pid)
    os.makedirs(d, exist_ok=True)
    h = case_hash(case)
    path = os.path.join(d, f"{h}.json")
    with open(path, "w") as f:
        json.dump(
            {"property": pid, "expect": "pass", "seed": seed, "tier": tier, "case": case, "observed_failures": failures},
            f,
            indent=1,
            default=repr,
        )
    return os.path.relpath(path, VERIF)
