"""Engine E2 *responder*: drive a bluesky plan generator without a RunEngine.

A plan is a generator of ``bluesky.utils.Msg``; the RunEngine answers every message.  The
:class:`Responder` answers them the way the RunEngine would for well-behaved devices

    read     -> the device's reading dict          set/trigger -> a finished status object
    locate   -> the device's Location dict         stage/unstage -> [device]
    open_run -> a run uid string                   close_run   -> the same uid
    rewindable(None) -> True                       everything else -> None

and keeps the state the oracles need: the full message trace, the last-set position of every
fake motor and a virtual clock (``sleep`` advances it, callers may charge a duration to any message).

``drive`` runs a plan to completion under a *runaway cap*: exceeding the cap raises
:class:`Runaway` (the non-termination verdict of C29).  ``virtual_time`` patches the ``time``
name that ``bluesky.plan_stubs.repeat`` reads for the duration of a ``with`` block and restores it.

The fakes are deliberately tiny: hashable (identity), ``name``/``parent`` attributes, and only the
protocol methods the plans duck-type on (``bluesky.protocols`` runtime-checkable protocols).
"""

from __future__ import annotations

import contextlib
import time as _real_time

from .core import use_repo

use_repo()


# ------------------------------------------------------------------------------------------
# status + fake devices


class DoneStatus:
    """A finished, successful status (what a RunEngine hands back for set/trigger)."""

    done = True
    success = True

    def __init__(self, obj=None):
        self.obj = obj

    def add_callback(self, cb):
        cb(self)

    def exception(self, timeout=0.0):
        return None

    def wait(self, timeout=None):
        return None

    def __repr__(self):
        return "DoneStatus()"


class FakeDevice:
    """Common part: name, parent, identity hashing."""

    def __init__(self, name, parent=None):
        self.name = name
        self.parent = parent

    def __repr__(self):
        return f"{type(self).__name__}({self.name})"

    def describe(self):
        return {self.name: {"source": f"fake:{self.name}", "dtype": "number", "shape": []}}

    def read_configuration(self):
        return {}

    def describe_configuration(self):
        return {}


class UnhintedMotor(FakeDevice):
    """Movable + Readable + Stoppable with a ``position`` attribute and no ``hints`` attribute at all
    (plans must cope: ``except (AttributeError, KeyError)``)."""

    def __init__(self, name, position=0.0, parent=None, clock=None):
        super().__init__(name, parent)
        self.position = position
        self.set_log = []  # every value passed to set(), in order
        self.clock = clock

    def set(self, value, **kwargs):
        self.position = value
        self.set_log.append(value)
        return DoneStatus(self)

    def read(self):
        t = self.clock.time() if self.clock is not None else 0.0
        return {self.name: {"value": self.position, "timestamp": t}}

    def stop(self, success=True):
        pass


class FakeMotor(UnhintedMotor):
    """The usual motor: as above plus ``hints = {'fields': [name]}``."""

    @property
    def hints(self):
        return {"fields": [self.name]}


class LocatableMotor(FakeMotor):
    """Locatable: relative wrappers ask ``locate`` instead of reading ``position``.

    Its readback differs from the setpoint by ``readback_offset`` so that an oracle can tell which of
    the two a plan used (``position`` mirrors the setpoint for the oracles; Locatable wins in bluesky).
    """

    def __init__(self, name, position=0.0, parent=None, clock=None, readback_offset=0.0):
        FakeDevice.__init__(self, name, parent)
        self._setpoint = position
        self.readback_offset = readback_offset
        self.set_log = []
        self.clock = clock

    # ``position`` is what the oracles look at: the last commanded setpoint
    @property
    def position(self):
        return self._setpoint

    def set(self, value, **kwargs):
        self._setpoint = value
        self.set_log.append(value)
        return DoneStatus(self)

    def locate(self):
        return {"setpoint": self._setpoint, "readback": self._setpoint + self.readback_offset}

    def read(self):
        t = self.clock.time() if self.clock is not None else 0.0
        return {self.name: {"value": self._setpoint + self.readback_offset, "timestamp": t}}


class ReadOnlyPositionMotor(FakeDevice):
    """Movable + Readable with neither ``position`` nor ``locate``: relative wrappers must ``read`` it."""

    def __init__(self, name, position=0.0, parent=None, clock=None):
        super().__init__(name, parent)
        self._p = position
        self.set_log = []
        self.clock = clock

    @property
    def hints(self):
        return {"fields": [self.name]}

    def set(self, value, **kwargs):
        self._p = value
        self.set_log.append(value)
        return DoneStatus(self)

    def read(self):
        t = self.clock.time() if self.clock is not None else 0.0
        return {self.name: {"value": self._p, "timestamp": t}}

    def stop(self, success=True):
        pass


def motor_position(m):
    """Last commanded position of any of the fake motors."""
    if isinstance(m, ReadOnlyPositionMotor):
        return m._p
    return m.position


class LimitedMotor(FakeMotor):
    """Checkable motor: ``check_value`` raises :class:`LimitError` outside ``[low, high]``."""

    def __init__(self, name, low, high, position=0.0, parent=None, is_async=False):
        super().__init__(name, position, parent)
        self.low, self.high = low, high
        self.is_async = is_async
        self.checked = []

    def _check(self, value):
        self.checked.append(value)
        if not (self.low <= value <= self.high):
            raise LimitError(self.name, value)

    def check_value(self, value):
        if self.is_async:

            async def co():
                self._check(value)

            return co()
        return self._check(value)


class LimitError(ValueError):
    def __init__(self, device_name, value):
        super().__init__(f"{device_name}: {value!r} outside limits")
        self.device_name = device_name
        self.value = value


class FakeDetector(FakeDevice):
    """Readable (+ Triggerable) whose value is ``fn(det)`` evaluated at read time (``fn`` may look at motors)."""

    def __init__(self, name, fn=None, parent=None, clock=None, fields=None):
        super().__init__(name, parent)
        self.fn = fn or (lambda det: 0.0)
        self.clock = clock
        self.n_trigger = 0
        self.n_read = 0
        self.fields = list(fields) if fields else [name]

    def trigger(self):
        self.n_trigger += 1
        return DoneStatus(self)

    def read(self):
        self.n_read += 1
        t = self.clock.time() if self.clock is not None else 0.0
        v = self.fn(self)
        return {f: {"value": v, "timestamp": t} for f in self.fields}

    def describe(self):
        return {f: {"source": f"fake:{f}", "dtype": "number", "shape": []} for f in self.fields}


class UntriggeredDetector(FakeDevice):
    """Readable without ``trigger`` (trigger_and_read must skip trigger and, alone, the wait)."""

    def __init__(self, name, fn=None, parent=None, clock=None):
        super().__init__(name, parent)
        self.fn = fn or (lambda det: 0.0)
        self.clock = clock
        self.n_read = 0

    def read(self):
        self.n_read += 1
        t = self.clock.time() if self.clock is not None else 0.0
        return {self.name: {"value": self.fn(self), "timestamp": t}}


# ------------------------------------------------------------------------------------------
# virtual clock


class VirtualClock:
    def __init__(self, t0=1000.0):
        self.now = float(t0)

    def time(self):
        return self.now

    def advance(self, dt):
        self.now += dt


class _TimeProxy:
    """Stands in for the ``time`` module inside bluesky.plan_stubs: only ``time()`` is virtual."""

    def __init__(self, clock):
        self._clock = clock

    def time(self):
        return self._clock.time()

    def __getattr__(self, name):
        return getattr(_real_time, name)


@contextlib.contextmanager
def virtual_time(clock):
    """Patch ``bluesky.plan_stubs.time`` (the only wall-clock reference ``repeat`` uses)."""
    import bluesky.plan_stubs as bps

    saved = bps.time
    bps.time = _TimeProxy(clock)
    try:
        yield clock
    finally:
        bps.time = saved


# ------------------------------------------------------------------------------------------
# responder + driver


class Runaway(Exception):
    """The plan produced more messages than the cap derived from its parameters allows."""

    def __init__(self, cap, trace):
        super().__init__(f"more than {cap} messages")
        self.cap = cap
        self.trace = trace


class Responder:
    """Answers messages like a RunEngine with instantly-finishing devices; records the trace."""

    def __init__(self, clock=None, duration=None):
        self.clock = clock or VirtualClock()
        self.duration = duration  # optional fn(msg) -> virtual seconds the RE spends on the message
        self.trace = []
        self.t_in = []  # virtual time at which each message arrived (what the plan saw just before yielding it)
        self.t_out = []  # virtual time when the answer was sent (after the message's duration, before any sleep)
        self.run_uid = None
        self.n_runs = 0
        self.rewindable = True

    def __call__(self, msg):
        self.trace.append(msg)
        self.t_in.append(self.clock.time())
        if self.duration is not None:
            dt = self.duration(msg)
            if dt:
                self.clock.advance(dt)
        self.t_out.append(self.clock.time())
        cmd = msg.command
        obj = msg.obj
        if cmd == "read":
            return obj.read()
        if cmd == "set":
            return obj.set(*msg.args)
        if cmd == "trigger":
            return obj.trigger()
        if cmd == "locate":
            return obj.locate()
        if cmd in ("stage", "unstage"):
            return [obj]
        if cmd == "open_run":
            self.n_runs += 1
            self.run_uid = f"run-uid-{self.n_runs}"
            return self.run_uid
        if cmd == "close_run":
            return self.run_uid
        if cmd == "sleep":
            self.clock.advance(msg.args[0])
            return None
        if cmd == "rewindable":
            if msg.args and msg.args[0] is None:
                return self.rewindable
            if msg.args:
                self.rewindable = bool(msg.args[0])
            return None
        if cmd == "wait":
            return None
        return None


@contextlib.contextmanager
def shallow_stack_capture(limit=3):
    """Every ``@plan``-decorated stub captures ``traceback.format_stack()`` when called (only used for a
    "never iterated" warning).  Under Hypothesis the Python stack is ~45 frames deep and that capture
    is more than half of the run time.  ``sys.tracebacklimit`` is the interpreter's own knob for it;
    it is set for the duration of a drive and restored afterwards.  Nothing in bluesky is patched."""
    import sys

    missing = object()
    saved = getattr(sys, "tracebacklimit", missing)
    sys.tracebacklimit = limit
    try:
        yield
    finally:
        if saved is missing:
            del sys.tracebacklimit
        else:
            sys.tracebacklimit = saved


def drive(plan, respond, cap=100000, stop_after=None, throw_after=None):
    with shallow_stack_capture():
        return _drive(plan, respond, cap, stop_after, throw_after)


def _drive(plan, respond, cap=100000, stop_after=None, throw_after=None):
    """Run ``plan`` answering each message with ``respond(msg)``.

    Returns ``(status, value)``: ``("returned", return_value)``, ``("raised", exception)`` or
    ``("closed", None)`` when ``stop_after`` messages were consumed and the plan was closed (the
    "cancelling consumer").  ``throw_after=(n, exc)``: after answering n messages the next resume of
    the plan is ``plan.throw(exc)`` (what the RunEngine does for stop/abort); driving then continues
    through the plan's cleanup.  Raises :class:`Runaway` when more than ``cap`` messages are produced.
    """
    n = 0
    ans = None
    while True:
        try:
            if throw_after is not None and n == throw_after[0] and n > 0:
                exc, throw_after = throw_after[1], None
                msg = plan.throw(exc)
            else:
                msg = plan.send(ans)
        except StopIteration as e:
            return ("returned", e.value)
        except Exception as e:  # noqa: BLE001 - the plan's own exception is an observation
            return ("raised", e)
        n += 1
        if n > cap:
            with contextlib.suppress(BaseException):
                plan.close()
            raise Runaway(cap, getattr(respond, "trace", None))
        if stop_after is not None and n > stop_after:
            plan.close()
            return ("closed", None)
        ans = respond(msg)  # an exception here is the harness's, not the plan's: let it escape


def split_points(trace):
    """Cut a trace into per-event segments: each ends with (and includes) a ``save`` message."""
    segs, cur = [], []
    for m in trace:
        cur.append(m)
        if m.command == "save":
            segs.append(cur)
            cur = []
    return segs, cur

