"""Regenerate /verif/MANIFEST.json from the property modules (``python -m vf.mkmanifest``)."""

import importlib
import json
import os

from . import core

core.use_repo()

ENGINES = [
    {"name": "E1", "path": "vf/engine", "kind_free_text": "schedule-owning virtual-time asyncio loop driving the real RunEngine; instrumented devices; JSON plan language", "serves_properties": []},
    {"name": "E2", "path": "vf/gendrv.py", "kind_free_text": "generator driver: send/throw/close scripts against plan generators, differential vs plain-Python references", "serves_properties": []},
    {"name": "E3", "path": "vf/props", "kind_free_text": "Hypothesis strategies / exhaustive enumeration for pure functions, callbacks and stores", "serves_properties": []},
]

PENDING_REASON = "check not built yet (build in progress); no claim is made for this property in this commit"


def main():
    props = [json.loads(line) for line in open(os.path.join(core.VERIF, "properties.jsonl"))]
    checks, na = [], []
    overrides = {}
    p = os.path.join(core.VERIF, "not_applicable.json")
    if os.path.exists(p):
        overrides = json.load(open(p))
    for pr in props:
        pid = pr["id"]
        modpath = os.path.join(core.VERIF, "vf", "props", pid.lower() + ".py")
        if pid in overrides or not os.path.exists(modpath):
            na.append({"property_id": pid, "reason": overrides.get(pid, PENDING_REASON)})
            continue
        mod = importlib.import_module(f"vf.props.{pid.lower()}")
        if getattr(mod, "DISABLED", None):
            na.append({"property_id": pid, "reason": mod.DISABLED})
            continue
        eng = getattr(mod, "ENGINE", "E3")
        for e in ENGINES:
            if e["name"] == eng:
                e["serves_properties"].append(pid)
        checks.append(
            {
                "property_id": pid,
                "quick_cmd": f"./check {pid} quick",
                "thorough_cmd": f"./check {pid} thorough",
                "evidence_file": f"evidence/{pid}.json",
                "replay_cmd_template": f"./check {pid} --replay {{path}}",
                "engine": eng,
                "level_claimed": {
                    "category": getattr(mod, "LEVEL", "exploration"),
                    "text": mod.LEVEL_TEXT,
                    "design_ref": mod.DESIGN_REF,
                },
                "level_note": mod.LEVEL_NOTE,
                "technique": mod.TECHNIQUE,
            }
        )
    man = {
        "version": 1,
        "setup_cmd": "./setup.sh",
        "hooks": {
            "guard": "BLUESKY_VERIF",
            "enable": "no hooks exist: checks import bluesky from /repo/src (or $VERIF_REPO) unmodified; BLUESKY_VERIF is reserved and unused",
            "baseline_off_cmd": "cd /repo && /venv/bin/python -m pytest -ra -q -p no:cacheprovider --timeout=900 --continue-on-collection-errors",
            "source_commits": [],
            "add_only": True,
        },
        "engines": ENGINES,
        "checks": checks,
        "notes": "Property-based testing / fuzzing family only. ./check <ID> quick|thorough|--replay <file>; "
        "known findings in known_findings.json; see DESIGN.md.",
        "not_applicable": na,
    }
    with open(os.path.join(core.VERIF, "MANIFEST.json"), "w") as f:
        json.dump(man, f, indent=1)
    print(f"MANIFEST.json: {len(checks)} checks, {len(na)} not_applicable")
    try:
        import jsonschema

        jsonschema.validate(man, json.load(open("/root/.vp/MANIFEST.schema.json")))
        print("schema: ok")
    except ImportError:
        pass


if __name__ == "__main__":
    main()
